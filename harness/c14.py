"""C14 — mission queries return exactly the flight instances matching the filter.

Two correspondences against the Lean model `AeicModel/Query.lean` (driver ops `c14.*`):
  (a) text: `Filter.to_sql`, `Query/CountQuery/FrequentFlightQuery.to_sql` (SQL tokens + parameter list,
      built once / repeatedly / after field changes on one object) vs `render` / `build`;
  (b) semantics: `Database(query)` on generated SQLite databases and the shipped test database vs the model
      evaluators `run/count/frequent` on the dumped tables;
and the property's clauses evaluated on the implementation's output against an independent Python
evaluation of the documented predicate over the joined tables (this is what finds failing inputs).
"""
from __future__ import annotations

import datetime as dt
import gc
import json
import math
import re
import shutil
import sqlite3
import tempfile
from pathlib import Path

from harness.common import CORPUS_DIR, REPO, aeic_setup, f2u, u2f

PID = 'C14'
EPOCH = dt.date(1970, 1, 1)
UTC = dt.timezone.utc

RULE = (
    'text stream: random Filter kwargs (ranges, type lists, every legal and illegal mix of the 12 spatial fields, '
    'str-or-list forms, empty lists, the empty filter) rendered directly and inside Query/CountQuery/'
    'FrequentFlightQuery objects that are built 1..4 times, also with fields changed between builds; '
    'semantic stream: generated SQLite mission databases (tied and midnight departure times, both directions of a '
    'route, boundary distances/seats) plus the shipped test database, queries drawn from the values present, each '
    'executed once, twice, or with two live result generators; a case is non-trivial when it has at least one '
    'condition / a refusal / a repeated build'
)
TRUSTED = [
    'Lean 4.33 kernel',
    'axioms propext/Classical.choice/Quot.sound',
    'correspondence harness harness/c14.py (tokeniser, table dump, Python predicate oracle)',
    'SQLite as evaluator of the condition forms the builder emits (modelled by Query.sem, validated by the semantic correspondence)',
    'SQLite R*-tree float32 rounding (model works on the dumped index rows; oracle keeps box edges out of the rounding band)',
    'sqlite3 / pandas timestamp conversion',
]
ASSUME = [
    'ORDER BY ties are unordered in SQL: results are compared modulo permutation inside groups of equal departure time / equal route count',
    'sampling is checked as subset + exact binomial tail (alarm below 1e-12) + per-instance draw (a flight with >= 30 instances is never kept/dropped as a whole by a 50 % sample); the model treats the random draw as an arbitrary per-instance oracle',
    'referential integrity of the mission database (every schedule joins to one flight and two airports) as enforced by the schema foreign keys',
    'spatial fields given as an EMPTY list are outside the clause domain (normalise treats them as unset, the SQL as "matches nothing"); they are still compared model-vs-code',
]

LIST_FIELDS = [
    'airport', 'origin_airport', 'destination_airport',
    'country', 'origin_country', 'destination_country',
    'continent', 'origin_continent', 'destination_continent',
    'service_type', 'aircraft_type',
]
SPATIAL_KINDS = ['airport', 'country', 'continent', 'bounding_box']
FLAVOURS = ['', 'origin_', 'destination_']
KEYWORDS = {
    'SELECT', 'FROM', 'WHERE', 'AND', 'OR', 'IN', 'JOIN', 'ON', 'AS', 'ORDER', 'BY', 'LIMIT', 'OFFSET', 'GROUP',
    'WITH', 'COUNT', 'MIN', 'DESC', 'SUBSTRING', 'RANDOM',
}
QUERY_FIELDS = ['every_nth', 'sample', 'limit', 'offset']
HEAVY = 30  # instances of one flight needed for the per-instance sampling clause (false-alarm chance 2**-29)


# =========================================================================== conversions
def sql_tokens(s: str) -> list[str]:
    toks = re.findall(r'[A-Za-z_][A-Za-z_0-9]*|\d+\.\d+|\d+|\S', s)
    return [t.upper() if t.upper() in KEYWORDS else t for t in toks]


def canon_param(p):
    if isinstance(p, bool):
        return ('b', p)
    if isinstance(p, (int, float)):
        return ('n', float(p))
    if isinstance(p, str):
        return ('s', p)
    return ('?', repr(p))


def canon_model_param(p):
    if 'i' in p:
        return ('n', float(p['i']))
    if 'f' in p:
        return ('n', u2f(p['f']))
    return ('s', p['s'])


def day_number(iso: str) -> int:
    return (dt.date.fromisoformat(iso) - EPOCH).days


def filter_to_model(fj: dict) -> dict:
    out = {}
    for k, v in fj.items():
        if v is None:
            continue
        if k in ('min_distance', 'max_distance'):
            out[k] = f2u(float(v))
        elif k in ('min_seat_capacity', 'max_seat_capacity'):
            out[k] = int(v)
        elif k.endswith('bounding_box'):
            out[k] = [f2u(float(x)) for x in v]
        else:
            out[k] = [v] if isinstance(v, str) else list(v)
    return out


def query_to_model(qj: dict, drop_window: bool = False) -> dict:
    m = {'kind': qj['kind']}
    if qj.get('filter') is not None:
        m['filter'] = filter_to_model(qj['filter'])
    if qj.get('start') is not None:
        m['start_day'] = day_number(qj['start'])
    if qj.get('end') is not None:
        m['end_day'] = day_number(qj['end'])
    if qj['kind'] == 'query':
        if qj.get('every_nth') is not None:
            m['every_nth'] = int(qj['every_nth'])
        if qj.get('sample') is not None:
            m['sample'] = f2u(float(qj['sample']))
        if not drop_window:
            if qj.get('limit') is not None:
                m['limit'] = int(qj['limit'])
            if qj.get('offset') is not None:
                m['offset'] = int(qj['offset'])
    elif qj['kind'] == 'frequent':
        m['limit'] = int(qj['limit']) if qj.get('limit') is not None else 20
    return m


def make_filter(fj: dict):
    from AEIC.missions import BoundingBox, Filter

    kw = {}
    for k, v in fj.items():
        if v is None:
            continue
        if k.endswith('bounding_box'):
            kw[k] = BoundingBox(min_latitude=v[0], max_latitude=v[1], min_longitude=v[2], max_longitude=v[3])
        elif isinstance(v, list):
            kw[k] = list(v)
        else:
            kw[k] = v
    return Filter(**kw)


def _common_kwargs(qj: dict) -> dict:
    kw = {}
    kw['filter'] = make_filter(qj['filter']) if qj.get('filter') is not None else None
    kw['start_date'] = dt.date.fromisoformat(qj['start']) if qj.get('start') is not None else None
    kw['end_date'] = dt.date.fromisoformat(qj['end']) if qj.get('end') is not None else None
    return kw


def make_query(qj: dict):
    from AEIC.missions import CountQuery, FrequentFlightQuery, Query

    kw = _common_kwargs(qj)
    if qj['kind'] == 'query':
        for k in QUERY_FIELDS:
            if qj.get(k) is not None:
                kw[k] = qj[k]
        return Query(**kw)
    if qj['kind'] == 'frequent':
        if qj.get('limit') is not None:
            kw['limit'] = qj['limit']
        return FrequentFlightQuery(**kw)
    return CountQuery(**kw)


def apply_fields(obj, qj: dict):
    """Change the public fields of an existing query object (it is a plain dataclass)."""
    for k, v in _common_kwargs(qj).items():
        setattr(obj, k, v)
    if qj['kind'] == 'query':
        for k in QUERY_FIELDS:
            setattr(obj, k, qj.get(k))
    elif qj['kind'] == 'frequent':
        obj.limit = qj['limit'] if qj.get('limit') is not None else 20


def exc_kind(e: Exception) -> str:
    return 'ValueError' if type(e) is ValueError else 'internal:' + type(e).__name__


# =========================================================================== documented rules (Python oracle)
def spatial_set(fj: dict, key: str) -> bool:
    v = fj.get(key)
    if v is None:
        return False
    if key.endswith('bounding_box'):
        return True
    return len([v] if isinstance(v, str) else v) > 0


def legal_doc(fj: dict) -> bool:
    """Documented rule: a single combined spatial filter, or at most one origin and at most one destination filter."""
    n = {fl: sum(spatial_set(fj, fl + k) for k in SPATIAL_KINDS) for fl in FLAVOURS}
    return (n[''] == 1 and n['origin_'] == 0 and n['destination_'] == 0) or (
        n[''] == 0 and n['origin_'] <= 1 and n['destination_'] <= 1
    )


def has_empty_spatial(fj: dict | None) -> bool:
    if not fj:
        return False
    for fl in FLAVOURS:
        for k in SPATIAL_KINDS[:3]:
            v = fj.get(fl + k)
            if v is not None and not isinstance(v, str) and len(v) == 0:
                return True
    return False


def filter_effective_conditions(fj: dict) -> int:
    """How many conditions the filter really states (empty type lists state none)."""
    n = 0
    for k, v in fj.items():
        if v is None:
            continue
        if k in ('service_type', 'aircraft_type') and not isinstance(v, str) and len(v) == 0:
            continue
        n += 1
    return n


def query_valid_doc(qj: dict) -> bool:
    """Documented parameter domain of the three query classes (+ legal spatial mix)."""
    if qj['kind'] == 'query':
        s = qj.get('sample')
        if s is not None and not (0.0 < s <= 1.0):
            return False
        if qj.get('every_nth') is not None and qj['every_nth'] < 1:
            return False
        if qj.get('limit') is not None and qj['limit'] < 1:
            return False
        if qj.get('offset') is not None and qj['offset'] < 0:
            return False
        if qj.get('offset') is not None and qj.get('limit') is None:
            return False
    if qj['kind'] == 'frequent' and qj.get('limit') is not None and qj['limit'] < 1:
        return False
    if qj.get('filter') is not None and not legal_doc(qj['filter']):
        return False
    return True


def expected_placeholders(qj: dict) -> int:
    """Number of values a fresh build must bind (independent count from the documented fields)."""
    n = 0
    fj = qj.get('filter') or {}
    for k, v in fj.items():
        if v is None:
            continue
        if k.endswith('bounding_box'):
            n += 8 if k == 'bounding_box' else 4
        elif k in LIST_FIELDS:
            ln = 1 if isinstance(v, str) else len(v)
            n += 2 * ln if k in ('airport', 'country', 'continent') else ln
        else:
            n += 1
    n += (qj.get('start') is not None) + (qj.get('end') is not None)
    if qj['kind'] == 'query':
        n += qj.get('sample') is not None
        if qj.get('every_nth') is not None and qj['every_nth'] > 1:
            n += 2 if qj.get('start') is not None else 1
    return n


# =========================================================================== databases
class DBInfo:
    """Dump of a mission database + joined rows for the oracle + JSON for the model."""

    def __init__(self, path: str):
        con = sqlite3.connect(f'file:{path}?mode=ro', uri=True)
        try:
            self.countries = {r[0]: r[1] for r in con.execute('SELECT code, continent FROM countries')}
            self.airports = {
                r[0]: {'id': r[0], 'iata': r[1], 'country': r[2], 'lat': r[3], 'lon': r[4]}
                for r in con.execute('SELECT id, iata_code, country, latitude, longitude FROM airports')
            }
            self.rtree = [tuple(r) for r in con.execute(
                'SELECT id, min_latitude, max_latitude, min_longitude, max_longitude FROM airport_location_idx')]
            self.flights = {
                r[0]: dict(zip(['id', 'carrier', 'flight_number', 'origin', 'destination', 'service_type',
                                'aircraft_type', 'engine_type', 'distance', 'seat_capacity', 'od_pair'], r))
                for r in con.execute(
                    'SELECT id, carrier, flight_number, origin, destination, service_type, aircraft_type, '
                    'engine_type, distance, seat_capacity, od_pair FROM flights')
            }
            self.schedules = [
                dict(zip(['id', 'dep', 'arr', 'day', 'flight_id'], r))
                for r in con.execute('SELECT id, departure_timestamp, arrival_timestamp, day, flight_id FROM schedules')
            ]
        finally:
            con.close()
        self.min_day = min((s['day'] for s in self.schedules), default=None)
        self.rows = []
        for s in self.schedules:
            f = self.flights.get(s['flight_id'])
            if f is None:
                continue
            ao, ad = self.airports.get(f['origin']), self.airports.get(f['destination'])
            if ao is None or ad is None:
                continue
            self.rows.append({'s': s, 'f': f, 'ao': ao, 'ad': ad})
        self.by_sid = {r['s']['id']: r for r in self.rows}
        self.integrity = len(self.rows) == len(self.schedules)
        self.band = max((max(r[2] - r[1], r[4] - r[3]) for r in self.rtree), default=0.0)

    def model_json(self) -> dict:
        return {
            'airports': [{'id': a['id'], 'iata': a['iata'], 'country': a['country']} for a in self.airports.values()],
            'countries': [{'code': c, 'continent': k} for c, k in self.countries.items()],
            'rtree': [{'id': r[0], 'box': [f2u(x) for x in r[1:]]} for r in self.rtree],
            'flights': [
                {'id': f['id'], 'origin': f['origin'], 'destination': f['destination'],
                 'service_type': f['service_type'], 'aircraft_type': f['aircraft_type'],
                 'distance': f2u(f['distance']), 'seats': f['seat_capacity'], 'od_pair': f['od_pair']}
                for f in self.flights.values()
            ],
            'schedules': [{'id': s['id'], 'dep': s['dep'], 'day': s['day'], 'flight_id': s['flight_id']}
                          for s in self.schedules],
        }

    # ---- pools for generators
    def pools(self, rng) -> dict:
        iatas = sorted({a['iata'] for a in self.airports.values()})
        used = sorted({self.airports[f['origin']]['iata'] for f in self.flights.values()}
                      | {self.airports[f['destination']]['iata'] for f in self.flights.values()})
        countries = sorted({a['country'] for a in self.airports.values()})
        conts = sorted(set(self.countries.values()))
        dists = sorted({f['distance'] for f in self.flights.values()})
        seats = sorted({f['seat_capacity'] for f in self.flights.values()})
        days = sorted({s['day'] for s in self.schedules}) or [17897]
        lats = sorted(a['lat'] for a in self.airports.values())
        lons = sorted(a['lon'] for a in self.airports.values())
        return {
            'iata': (used or iatas) + ['QQQ'], 'country': countries + ['ZZ'], 'continent': conts + ['XX'],
            'dist': dists or [1000.0], 'seats': seats or [100],
            'service': sorted({f['service_type'] for f in self.flights.values()}) + ['Z'],
            'aircraft': sorted({f['aircraft_type'] for f in self.flights.values()}) + ['ZZZ'],
            'days': days, 'lats': lats, 'lons': lons,
        }


def build_db(dump: dict, path: str):
    """Create a mission database through the real schema code and fill it with the given rows."""
    from AEIC.missions.writable_database import WritableDatabase

    db = WritableDatabase(path)
    try:
        cur = db._conn.cursor()
        cur.executemany('INSERT INTO countries (code, name, continent) VALUES (?, ?, ?)', dump['countries'])
        for a in dump['airports']:
            cur.execute('INSERT INTO airports (id, iata_code, name, municipality, country, latitude, longitude, '
                        'elevation) VALUES (?, ?, ?, ?, ?, ?, ?, ?)', (a[0], a[1], 'Airport ' + a[1], None, a[2], a[3], a[4], 0.0))
            cur.execute('INSERT INTO airport_location_idx (id, min_latitude, max_latitude, min_longitude, '
                        'max_longitude) VALUES (?, ?, ?, ?, ?)', (a[0], a[3], a[3], a[4], a[4]))
        for f in dump['flights']:
            cur.execute(
                'INSERT INTO flights (id, carrier, flight_number, origin, destination, day_of_week_mask, '
                'departure_time, arrival_time, arrival_day_offset, service_type, aircraft_type, engine_type, '
                'distance, seat_capacity, effective_from, effective_to, number_of_flights, od_pair) '
                'VALUES (?, ?, ?, ?, ?, 127, 0, 0, 0, ?, ?, ?, ?, ?, ?, ?, ?, ?)',
                (f[0], f[1], f[2], f[3], f[4], f[5], f[6], f[7], f[8], f[9], '2019-01-01', '2019-12-31', 0, f[10]))
        cur.executemany('INSERT INTO schedules (id, departure_timestamp, arrival_timestamp, day, flight_id) '
                        'VALUES (?, ?, ?, ?, ?)', dump['schedules'])
        db.commit()
        db.index()
        db.commit()
    finally:
        db.close()


_LETTERS = 'ABCDEFGHJKLMNPRSTUVWXY'
_COUNTRY_POOL = [('US', 'NA'), ('CA', 'NA'), ('MX', 'NA'), ('BR', 'SA'), ('AR', 'SA'), ('FR', 'EU'), ('DE', 'EU'),
                 ('AT', 'EU'), ('IT', 'EU'), ('JP', 'AS'), ('MY', 'AS'), ('ZA', 'AF'), ('AU', 'OC')]
_TOD_POOL = [0, 0, 1, 43200, 86399, 86399]


def gen_db_dump(rng) -> dict:
    nc = int(rng.integers(3, 8))
    cidx = rng.choice(len(_COUNTRY_POOL), size=nc, replace=False)
    countries = [[_COUNTRY_POOL[i][0], 'Country ' + _COUNTRY_POOL[i][0], _COUNTRY_POOL[i][1]] for i in cidx]
    na = int(rng.integers(4, 16))
    codes = set()
    while len(codes) < na:
        codes.add(''.join(rng.choice(list(_LETTERS), size=3)))
    codes = sorted(codes)
    rng.shuffle(codes)
    airports = []
    for i, code in enumerate(codes):
        # coordinates stay >= 0.5 degrees away from the 5-degree grid the box edges are drawn from
        lat = 5.0 * int(rng.integers(-16, 16)) + float(rng.uniform(0.5, 4.5))
        lon = 5.0 * int(rng.integers(-35, 35)) + float(rng.uniform(0.5, 4.5))
        airports.append([int(10 + 3 * i + rng.integers(0, 3)), code, countries[int(rng.integers(0, nc))][0], lat, lon])
    nf = int(rng.integers(3, 30))
    flights = []
    dist_pool = [1000.0, 3000.0, 5000.0]
    for i in range(nf):
        o = int(rng.integers(0, na))
        d = int(rng.integers(0, na))
        if d == o and rng.random() < 0.9:
            d = (o + 1) % na
        if i > 0 and rng.random() < 0.25:  # reverse direction of an earlier route
            o, d = flights[int(rng.integers(0, i))][3:5]
            o, d = [a[0] for a in airports].index(d), [a[0] for a in airports].index(o)
        dist = float(rng.choice(dist_pool)) if rng.random() < 0.3 else float(rng.uniform(100, 12000))
        if rng.random() < 0.3:
            dist = float(round(dist))
        io, idd = airports[o][1], airports[d][1]
        eng = [None, '', 'CFM56'][int(rng.integers(0, 3))]
        flights.append([
            int(100 + 2 * i + rng.integers(0, 2)), str(rng.choice(['AA', 'LH', 'QF'])), str(int(rng.integers(1, 9999))),
            airports[o][0], airports[d][0], str(rng.choice(['J', 'F', 'S', 'C'])),
            str(rng.choice(['738', '320', '77W', 'E90'])), eng, dist,
            int(rng.choice([50, 100, 150, 180, 250, 300, 400])), min(io, idd) + max(io, idd),
        ])
    base = int(rng.choice([17897, 17897, 19783, 11000]))
    schedules = []
    sid = 1
    for f in flights:
        for _ in range(int(rng.integers(0, 9))):
            day = base + int(rng.integers(0, 15))
            tod = int(rng.choice(_TOD_POOL)) if rng.random() < 0.6 else int(rng.integers(0, 86400))
            dep = day * 86400 + tod
            schedules.append([sid, dep, dep + int(rng.integers(1800, 40000)), day, f[0]])
            sid += int(rng.integers(1, 4))
    if flights and rng.random() < 0.6:
        # one flight with many instances: makes per-flight (instead of per-instance) sampling visible
        f = flights[int(rng.integers(0, len(flights)))]
        for _ in range(int(rng.integers(32, 41))):
            day = base + int(rng.integers(0, 15))
            dep = day * 86400 + int(rng.integers(0, 86400))
            schedules.append([sid, dep, dep + int(rng.integers(1800, 40000)), day, f[0]])
            sid += int(rng.integers(1, 4))
    order = rng.permutation(len(schedules))
    schedules = [schedules[i] for i in order]
    return {'countries': countries, 'airports': airports, 'flights': flights, 'schedules': schedules}


# =========================================================================== generators
STATIC_POOLS = {
    'iata': ['LHR', 'CDG', 'BOS', 'LAX', 'DTW', 'QQQ'], 'country': ['US', 'CA', 'FR', 'AT', 'DE', 'ZZ'],
    'continent': ['EU', 'NA', 'SA', 'AS', 'XX'], 'dist': [1000.0, 3000.0, 5000.0, 349.22764800000004],
    'seats': [0, 50, 100, 180, 250], 'service': ['J', 'F', 'S', 'Z'], 'aircraft': ['738', '320', '77W', 'ZZZ'],
    'days': list(range(17897, 17912)), 'lats': [-33.9, 12.2, 46.9, 48.1], 'lons': [-118.4, 2.5, 13.1, 151.2],
}


def _pick_list(rng, pool, allow_empty=True):
    r = rng.random()
    if allow_empty and r < 0.04:
        return []
    if r < 0.4:
        return str(rng.choice(pool))
    k = int(rng.integers(1, 4))
    return [str(x) for x in rng.choice(pool, size=k)]


def _edge(rng, vals, lo, hi):
    """A box edge on the 5-degree grid (generated airports keep >= 0.5 degrees from it) or, for foreign
    coordinates, a value kept >= 1e-3 away from every coordinate present."""
    for _ in range(50):
        if rng.random() < 0.5 and vals:
            e = float(rng.choice(vals)) + float(rng.choice([-1.0, 1.0])) * float(rng.uniform(0.01, 8.0))
        else:
            e = 5.0 * int(rng.integers(lo // 5, hi // 5 + 1))
        e = float(max(lo, min(hi, e)))
        if all(abs(e - v) > 1e-3 for v in vals):
            return e
    return float(lo)


def _gen_bbox(rng, pools):
    a, b = _edge(rng, pools['lats'], -90, 90), _edge(rng, pools['lats'], -90, 90)
    c, d = _edge(rng, pools['lons'], -180, 180), _edge(rng, pools['lons'], -180, 180)
    if rng.random() < 0.9:
        a, b = min(a, b), max(a, b)
        c, d = min(c, d), max(c, d)
    return [a, b, c, d]


def _gen_spatial_value(rng, pools, kind):
    if kind == 'bounding_box':
        return _gen_bbox(rng, pools)
    return _pick_list(rng, pools[{'airport': 'iata', 'country': 'country', 'continent': 'continent'}[kind]])


def gen_filter(rng, pools) -> dict:
    fj = {}
    dist, seats = pools['dist'], pools['seats']

    def dval():
        v = float(rng.choice(dist))
        r = rng.random()
        if r < 0.5:
            return v  # exactly a value present: inclusive bound
        if r < 0.7:
            return int(round(v))
        return float(rng.uniform(0, 13000))

    if rng.random() < 0.25:
        fj['min_distance'] = dval()
    if rng.random() < 0.25:
        fj['max_distance'] = dval()
    if rng.random() < 0.2:
        fj['min_seat_capacity'] = int(rng.choice(seats)) + int(rng.integers(-1, 2))
    if rng.random() < 0.2:
        fj['max_seat_capacity'] = int(rng.choice(seats)) + int(rng.integers(-1, 2))
    # bounds of exactly zero are conditions like any other (all-cargo query `max_seat_capacity=0`; seed C14_4)
    z = rng.random()
    if z < 0.04:
        fj['max_seat_capacity'] = 0
    elif z < 0.06:
        fj['max_distance'] = 0 if rng.random() < 0.5 else 0.0
    elif z < 0.08:
        fj['min_seat_capacity'] = 0
    elif z < 0.10:
        fj['min_distance'] = 0.0
    if rng.random() < 0.2:
        fj['service_type'] = _pick_list(rng, pools['service'])
    if rng.random() < 0.2:
        fj['aircraft_type'] = _pick_list(rng, pools['aircraft'])
    r = rng.random()
    kinds = SPATIAL_KINDS
    k = lambda: str(rng.choice(kinds))  # noqa: E731
    if r < 0.25:
        pass
    elif r < 0.45:
        kk = k()
        fj[kk] = _gen_spatial_value(rng, pools, kk)
    elif r < 0.57:
        kk = k()
        fj['origin_' + kk] = _gen_spatial_value(rng, pools, kk)
    elif r < 0.69:
        kk = k()
        fj['destination_' + kk] = _gen_spatial_value(rng, pools, kk)
    elif r < 0.88:
        k1, k2 = k(), k()
        fj['origin_' + k1] = _gen_spatial_value(rng, pools, k1)
        fj['destination_' + k2] = _gen_spatial_value(rng, pools, k2)
    else:  # (mostly) illegal mixes
        m = int(rng.integers(0, 4))
        k1, k2 = k(), k()
        if m == 0:
            fj[k1] = _gen_spatial_value(rng, pools, k1)
            fj[str(rng.choice(['origin_', 'destination_'])) + k2] = _gen_spatial_value(rng, pools, k2)
        elif m == 1:
            fj[k1] = _gen_spatial_value(rng, pools, k1)
            k2 = kinds[(kinds.index(k1) + 1 + int(rng.integers(0, 3))) % 4]
            fj[k2] = _gen_spatial_value(rng, pools, k2)
        elif m == 2:
            fl = str(rng.choice(['origin_', 'destination_']))
            fj[fl + k1] = _gen_spatial_value(rng, pools, k1)
            k2 = kinds[(kinds.index(k1) + 1 + int(rng.integers(0, 3))) % 4]
            fj[fl + k2] = _gen_spatial_value(rng, pools, k2)
        else:
            for fl in FLAVOURS:
                kk = k()
                fj[fl + kk] = _gen_spatial_value(rng, pools, kk)
    return fj


def _iso(day: int) -> str:
    return (EPOCH + dt.timedelta(days=int(day))).isoformat()


def gen_query(rng, pools, kind=None) -> dict:
    kind = kind or str(rng.choice(['query', 'query', 'query', 'count', 'frequent']))
    qj = {'kind': kind}
    r = rng.random()
    if r < 0.15:
        pass
    elif r < 0.22:
        qj['filter'] = {} if rng.random() < 0.7 else {str(rng.choice(['service_type', 'aircraft_type'])): []}
    else:
        qj['filter'] = gen_filter(rng, pools)
    days = pools['days']
    lo, hi = days[0] - 1, days[-1] + 1
    if rng.random() < 0.35:
        qj['start'] = _iso(rng.integers(lo, hi + 1))
    if rng.random() < 0.35:
        qj['end'] = _iso(rng.integers(lo, hi + 1))
    if kind == 'query':
        r = rng.random()
        if r < 0.4:
            qj['every_nth'] = int(rng.choice([1, 2, 2, 3, 5, 7, 0, -2]))
        r = rng.random()
        if r < 0.12:
            qj['sample'] = float(rng.choice([0.5, 1.0, 0.25, 0.9]))
        elif r < 0.16:
            qj['sample'] = float(rng.choice([0.0, 1.5, -0.1]))
        r = rng.random()
        if r < 0.35:
            qj['limit'] = int(rng.choice([1, 2, 3, 5, 10, 1000, 0]))
            if rng.random() < 0.6:
                qj['offset'] = int(rng.choice([0, 1, 2, 3, 7, 100, -1]))
        elif r < 0.38:
            qj['offset'] = int(rng.choice([0, 2]))
    elif kind == 'frequent':
        if rng.random() < 0.6:
            qj['limit'] = int(rng.choice([1, 2, 3, 5, 20, 100, 0]))
    return qj


# =========================================================================== text variants
# A difference in SQL *text* alone is not yet a divergence: the property is about results.  Both texts
# (implementation's and model's, each with its own parameters) are executed on the generated databases and
# the shipped one; only if some result differs (or a text cannot be executed) is it reported as a divergence.
_PENDING_TEXT: list = []


def model_param_value(p):
    if 'i' in p:
        return int(p['i'])
    if 'f' in p:
        return u2f(p['f'])
    return p['s']


def _neutralise_sampling(sql: str, params: list):
    """Make a sampling condition always true (fraction 2.0) so that two texts can be compared by results."""
    params = list(params)
    key = '18446744073709551615.0 <'
    pos = sql.find(key)
    while pos >= 0:
        idx = sql[:pos + len(key)].count('?')
        if idx < len(params):
            params[idx] = 2.0
        pos = sql.find(key, pos + 1)
    return params


def _wrap_fragment(cond: str, table):
    if table:
        base = f'SELECT s.id FROM schedules s JOIN flights {table} ON {table}.id = s.flight_id'
    else:
        base = 'SELECT s.id FROM schedules s JOIN flights ON flights.id = s.flight_id'
    return base + (' WHERE ' + cond if cond.strip() else '') + ' ORDER BY s.id'


def _exec_canon(con, sql, params, kind):
    rows = [tuple(r) for r in con.execute(sql, _neutralise_sampling(sql, params))]
    limited = ' LIMIT ' in sql.upper()
    if kind == 'query':
        deps = [r[0] for r in rows]
        cut = {deps[0], deps[-1]} if (limited and deps) else set()
        return deps, sorted(r for r in rows if r[0] not in cut)
    if kind == 'frequent':
        ns = [r[2] for r in rows]
        cut = {ns[-1]} if ns else set()
        return ns, sorted(r for r in rows if r[2] not in cut)
    return rows


def resolve_text_variants(ctx, db_paths):
    """Decide the pending text differences by executing both texts."""
    seen = set()
    for pend in _PENDING_TEXT:
        key = (tuple(sql_tokens(pend['impl_sql'])), tuple(sql_tokens(pend['model_sql'])))
        if key in seen:
            continue
        seen.add(key)
        if len(seen) > 3000:
            # the first 3000 distinct differences have been decided by execution; the rest are only counted
            ctx.count('text-variant-not-executed')
            continue
        verdict = None
        for path in db_paths:
            con = sqlite3.connect(f'file:{path}?mode=ro', uri=True)
            try:
                a = _exec_canon(con, pend['impl_sql'], pend['impl_params'], pend['kind'])
                b = _exec_canon(con, pend['model_sql'], pend['model_params'], pend['kind'])
                if a != b:
                    verdict = f'results differ on database {Path(path).name}'
            except Exception as e:  # noqa: BLE001
                verdict = f'cannot execute: {type(e).__name__}: {e}'
            finally:
                con.close()
            if verdict:
                break
        if verdict:
            ctx.diverge(pend['what'], pend['case'],
                        f'{verdict}; impl={pend["impl_sql"]!r} model={pend["model_sql"]!r}')
        else:
            ctx.count('text-variant-same-results')
            if len(ctx.notes) < 5:
                ctx.notes.append('SQL text differs from the model but gives the same results on every database tried: '
                                 + pend['impl_sql'][-120:])
    _PENDING_TEXT.clear()


# =========================================================================== (a) text level
def impl_filter_sql(fj: dict, table):
    try:
        f = make_filter(fj)
        cond, params = f.to_sql(table) if table is not None else f.to_sql()
        return {'ok': {'sql': cond, 'params': list(params)}}
    except Exception as e:  # noqa: BLE001
        return {'err': exc_kind(e)}


def impl_builds(qjs: list[dict]):
    """One query object, a history of to_sql() calls; fields are re-assigned only when the spec changes."""
    out = []
    try:
        obj = make_query(qjs[0])
    except Exception as e:  # noqa: BLE001
        return [{'err': 'construct:' + exc_kind(e)} for _ in qjs]
    prev = qjs[0]
    for qj in qjs:
        if qj != prev:
            apply_fields(obj, qj)
            prev = qj
        try:
            sql, params = obj.to_sql()
            out.append({'ok': {'sql': sql, 'ref': params, 'params': list(params)}})
        except Exception as e:  # noqa: BLE001
            out.append({'err': exc_kind(e)})
    for r in out:
        if 'ok' in r:
            r['ok']['late'] = list(r['ok'].pop('ref'))
    return out


def check_filter_text(ctx, case, model_out):
    """Clauses + correspondence for one direct Filter.to_sql case."""
    fj, table = case['filter'], case.get('table')
    impl = impl_filter_sql(fj, table)
    legal = legal_doc(fj)
    neff = filter_effective_conditions(fj)
    failed = False
    # ---- clauses on the implementation
    if not legal:
        ctx.count('filter:illegal-mix')
        if 'ok' in impl:
            ctx.clause_fail('illegal_spatial_mix_refused', case, detail='illegal mix of spatial filters was accepted')
            failed = True
    else:
        if 'err' in impl:
            clause = 'empty_filter_selects_all' if neff == 0 else 'legal_filter_accepted'
            ctx.clause_fail(clause, case, detail=f'legal filter ({neff} condition(s)) raised {impl["err"]}')
            failed = True
        else:
            sql, params = impl['ok']['sql'], impl['ok']['params']
            if sql.count('?') != len(params):
                ctx.clause_fail('placeholders_eq_params', case, detail=f'{sql.count("?")} placeholders, {len(params)} params')
                failed = True
            if neff == 0 and (sql.strip() or params):
                ctx.clause_fail('empty_filter_selects_all', case, detail=f'empty filter produced condition {sql!r}')
                failed = True
            exp = expected_placeholders({'kind': 'count', 'filter': fj})
            if len(params) != exp and not has_empty_spatial(fj):
                ctx.clause_fail('params_cover_conditions', case, detail=f'{len(params)} params, documented fields need {exp}')
                failed = True
    # ---- correspondence
    if ('err' in impl) != ('err' in model_out):
        ctx.diverge('Filter.to_sql outcome', case, f'impl={impl.get("err", "ok")} model={model_out.get("err", "ok")}')
    elif 'ok' in impl:
        if model_out['ok']['qm'] != model_out['ok']['sql'].count('?'):
            ctx.diverge('model token abstraction', case, 'a literal text piece of the model contains a "?"')
        if sql_tokens(impl['ok']['sql']) != sql_tokens(model_out['ok']['sql']):
            if impl['ok']['sql'].count('?') == len(impl['ok']['params']):
                _PENDING_TEXT.append({'what': 'Filter.to_sql text', 'case': case, 'kind': 'fragment',
                                      'impl_sql': _wrap_fragment(impl['ok']['sql'], table), 'impl_params': impl['ok']['params'],
                                      'model_sql': _wrap_fragment(model_out['ok']['sql'], table),
                                      'model_params': [model_param_value(p) for p in model_out['ok']['params']]})
            else:
                ctx.diverge('Filter.to_sql text', case, f'impl={impl["ok"]["sql"]!r} model={model_out["ok"]["sql"]!r}')
        elif [canon_param(p) for p in impl['ok']['params']] != [canon_model_param(p) for p in model_out['ok']['params']]:
            ctx.diverge('Filter.to_sql params', case, f'impl={impl["ok"]["params"]!r} model={model_out["ok"]["params"]!r}')
    ctx.count('filter:' + ('refused' if 'err' in impl else f'conds{min(neff, 4)}'))
    ctx.case(('f', json.dumps(case, sort_keys=True)), nontrivial=neff > 0 or not legal,
             sample={'filter': fj, 'impl': impl.get('err') or impl['ok']['sql'][:80]})
    return failed


def check_builds(ctx, case, model_out):
    """Clauses + correspondence for a history of builds on one query object."""
    qjs = case['qs']
    impl = impl_builds(qjs)
    failed = False
    for i, (qj, r) in enumerate(zip(qjs, impl)):
        valid = query_valid_doc(qj)
        where = f'build #{i + 1} of {len(qjs)}'
        if not valid:
            if 'ok' in r:
                ctx.clause_fail('invalid_query_refused', case, detail=f'{where}: out-of-domain parameters accepted')
                failed = True
            continue
        if 'err' in r:
            neff = filter_effective_conditions(qj['filter']) if qj.get('filter') is not None else None
            clause = 'empty_filter_selects_all' if neff == 0 else 'valid_query_builds'
            ctx.clause_fail(clause, case, detail=f'{where}: valid query raised {r["err"]}')
            failed = True
            continue
        ok = r['ok']
        nq = ok['sql'].count('?')
        if nq != len(ok['params']):
            ctx.clause_fail('placeholders_eq_params', case, detail=f'{where}: {nq} placeholders, {len(ok["params"])} params')
            failed = True
        if ok['late'] != ok['params']:
            ctx.clause_fail('earlier_sql_still_valid', case,
                            detail=f'{where}: returned params changed from {len(ok["params"])} to {len(ok["late"])} '
                                   f'values after later builds ({nq} placeholders)')
            failed = True
        # a query object is a value: the build depends on the current fields only
        fresh = impl_builds([qj])[0]
        if 'ok' in fresh:
            if sql_tokens(fresh['ok']['sql']) != sql_tokens(ok['sql']) or fresh['ok']['params'] != ok['params']:
                ctx.clause_fail('rebuild_same_answer', case,
                                detail=f'{where}: differs from the first build of an identical fresh object '
                                       f'({len(fresh["ok"]["params"])} vs {len(ok["params"])} params)')
                failed = True
            exp = expected_placeholders(qj)
            if len(fresh['ok']['params']) != exp and not has_empty_spatial(qj.get('filter')):
                ctx.clause_fail('params_cover_conditions', case,
                                detail=f'fresh build binds {len(fresh["ok"]["params"])} values, documented fields need {exp}')
                failed = True
    # ---- correspondence with the model's state machine (repaired variant)
    for i, (r, m) in enumerate(zip(impl, model_out)):
        if ('err' in r) != ('err' in m):
            ctx.diverge('to_sql outcome', case, f'build #{i + 1}: impl={r.get("err", "ok")} model={m.get("err", "ok")}')
            break
        if 'ok' in r:
            if m['ok']['qm'] != m['ok']['sql'].count('?'):
                ctx.diverge('model token abstraction', case, 'a literal text piece of the model contains a "?"')
            if sql_tokens(r['ok']['sql']) != sql_tokens(m['ok']['sql']):
                if r['ok']['sql'].count('?') == len(r['ok']['params']) and r['ok']['late'] == r['ok']['params']:
                    _PENDING_TEXT.append({'what': 'to_sql text', 'case': case, 'kind': qjs[i]['kind'],
                                          'impl_sql': r['ok']['sql'], 'impl_params': r['ok']['params'],
                                          'model_sql': m['ok']['sql'],
                                          'model_params': [model_param_value(p) for p in m['ok']['params']]})
                    continue
                ctx.diverge('to_sql text', case, f'build #{i + 1}: impl={r["ok"]["sql"]!r} model={m["ok"]["sql"]!r}')
                break
            for key in ('params', 'late'):
                if [canon_param(p) for p in r['ok'][key]] != [canon_model_param(p) for p in m['ok'][key]]:
                    ctx.diverge(f'to_sql {key}', case, f'build #{i + 1}: impl={r["ok"][key]!r} model={m["ok"][key]!r}')
                    break
    kinds = {q['kind'] for q in qjs}
    ctx.count('builds:' + '/'.join(sorted(kinds)) + f':n{min(len(qjs), 4)}')
    ctx.case(('b', json.dumps(case, sort_keys=True)), nontrivial=len(qjs) > 1 or any('err' in r for r in impl),
             sample={'qs': qjs[:2], 'n': len(qjs)})
    return failed


def text_cases(ctx, n):
    rng = ctx.rng
    cases = []
    # boundary stream
    for fj in [{}, {'service_type': []}, {'aircraft_type': [], 'service_type': []}, {'airport': 'LHR'},
               {'min_distance': 1000, 'max_distance': 5000}, {'max_seat_capacity': 0}, {'max_distance': 0},
               {'max_distance': 0.0, 'service_type': ['J']}, {'min_seat_capacity': 0, 'max_seat_capacity': 0}, {'airport': []}, {'airport': [], 'origin_country': 'US'},
               {'country': 'US', 'origin_country': 'US'}, {'origin_airport': 'BOS', 'origin_country': 'US'}]:
        for table in (None, 'f'):
            cases.append({'type': 'filter', 'filter': fj, 'table': table})
    for kind in ('query', 'count', 'frequent'):
        for flt in (None, {}, {'country': ['US', 'CA']}, {'min_distance': 1000.0}):
            for extra in ({}, {'start': '2019-01-03'}, {'start': '2019-01-03', 'end': '2019-01-05'}):
                q = {'kind': kind, **extra}
                if flt is not None:
                    q['filter'] = flt
                for reps in (1, 2, 3):
                    cases.append({'type': 'builds', 'qs': [q] * reps})
    cases.append({'type': 'builds', 'qs': [{'kind': 'query', 'sample': 0.5, 'every_nth': 3}] * 3})
    cases.append({'type': 'builds', 'qs': [{'kind': 'query', 'every_nth': 3, 'start': '2019-01-02', 'limit': 5, 'offset': 2}] * 2})
    # random stream
    for _ in range(n):
        r = rng.random()
        if r < 0.4:
            cases.append({'type': 'filter', 'filter': gen_filter(rng, STATIC_POOLS),
                          'table': None if rng.random() < 0.5 else 'f'})
        elif r < 0.8:
            q = gen_query(rng, STATIC_POOLS)
            cases.append({'type': 'builds', 'qs': [q] * int(rng.integers(1, 5))})
        else:  # fields changed between builds of one object
            kind = str(rng.choice(['query', 'count', 'frequent']))
            qs = []
            for _ in range(int(rng.integers(2, 5))):
                q = gen_query(rng, STATIC_POOLS, kind=kind)
                qs += [q] * int(rng.integers(1, 3))
            cases.append({'type': 'builds', 'qs': qs})
    return cases


def model_text_ops(cases):
    ops = []
    for c in cases:
        if c['type'] == 'filter':
            ops.append({'op': 'c14.filter_sql', 'filter': filter_to_model(c['filter']),
                        'table': (c['table'] + '.') if c.get('table') else '', 'fixed': True})
        else:
            ops.append({'op': 'c14.builds', 'qs': [query_to_model(q) for q in c['qs']], 'fixed': True})
    return ops


def run_text(ctx, cases):
    outs = ctx.driver.outs(model_text_ops(cases))
    bad = []
    for c, m in zip(cases, outs):
        nd = len(ctx.divergences)
        f = check_filter_text(ctx, c, m) if c['type'] == 'filter' else check_builds(ctx, c, m)
        if f or len(ctx.divergences) > nd:
            bad.append(c)
    return bad


# =========================================================================== (b) semantics
def in_box(b, lat, lon):
    return b[0] <= lat <= b[1] and b[2] <= lon <= b[3]


def spec_filter(fj: dict | None, row, info: DBInfo) -> bool:
    """The documented predicate of a Filter on a joined row (AND of everything given)."""
    if not fj:
        return True
    f, ao, ad = row['f'], row['ao'], row['ad']
    if fj.get('min_distance') is not None and not f['distance'] >= fj['min_distance']:
        return False
    if fj.get('max_distance') is not None and not f['distance'] <= fj['max_distance']:
        return False
    if fj.get('min_seat_capacity') is not None and not f['seat_capacity'] >= fj['min_seat_capacity']:
        return False
    if fj.get('max_seat_capacity') is not None and not f['seat_capacity'] <= fj['max_seat_capacity']:
        return False
    for key, col in (('service_type', 'service_type'), ('aircraft_type', 'aircraft_type')):
        v = fj.get(key)
        if v is not None:
            v = [v] if isinstance(v, str) else v
            if len(v) > 0 and f[col] not in v:
                return False

    def in_region(kind, v, ap):
        if kind == 'bounding_box':
            return in_box(v, ap['lat'], ap['lon'])
        v = [v] if isinstance(v, str) else v
        if kind == 'airport':
            return ap['iata'] in v
        if kind == 'country':
            return ap['country'] in v
        return info.countries.get(ap['country']) in v

    for kind in SPATIAL_KINDS:
        v = fj.get(kind)
        if v is not None and not (in_region(kind, v, ao) or in_region(kind, v, ad)):
            return False
        v = fj.get('origin_' + kind)
        if v is not None and not in_region(kind, v, ao):
            return False
        v = fj.get('destination_' + kind)
        if v is not None and not in_region(kind, v, ad):
            return False
    return True


def spec_query(qj: dict, row, info: DBInfo) -> bool:
    """Documented predicate of a query on a joined row, sampling aside."""
    if not spec_filter(qj.get('filter'), row, info):
        return False
    dep_date = dt.datetime.fromtimestamp(row['s']['dep'], UTC).date()
    if qj.get('start') is not None and dep_date < dt.date.fromisoformat(qj['start']):
        return False
    if qj.get('end') is not None and dep_date > dt.date.fromisoformat(qj['end']):
        return False
    n = qj.get('every_nth') if qj['kind'] == 'query' else None
    if n is not None and n > 1:
        base = day_number(qj['start']) if qj.get('start') is not None else info.min_day
        if (row['s']['day'] - base) % n != 0:
            return False
    return True


def result_to_dict(r) -> dict:
    return {
        'id': r.id, 'flight_id': r.flight_id, 'dep': int(r.departure.timestamp()), 'arr': int(r.arrival.timestamp()), 'carrier': r.carrier,
        'flight_number': r.flight_number, 'origin': r.origin, 'origin_country': r.origin_country,
        'destination': r.destination, 'destination_country': r.destination_country,
        'service_type': r.service_type, 'aircraft_type': r.aircraft_type, 'engine_type': r.engine_type,
        'distance': r.distance, 'seat_capacity': r.seat_capacity,
    }


def impl_execute(db, qj: dict, mode: str):
    """Run one query object against the real Database. Returns a list of outcomes (one per execution)."""
    import pandas as pd  # noqa: F401

    try:
        q = make_query(qj)
    except Exception as e:  # noqa: BLE001
        return [{'err': 'construct:' + exc_kind(e)}]

    def mat(res):
        if qj['kind'] == 'count':
            return {'ok': int(res)}
        if qj['kind'] == 'frequent':
            return {'ok': [(r.airport1, r.airport2, r.number_of_flights) for r in res]}
        return {'ok': [result_to_dict(r) for r in res]}

    outs = []
    if mode == 'live2':
        pending = []
        for _ in range(2):
            try:
                pending.append(db(q))
            except Exception as e:  # noqa: BLE001
                pending.append(e)
        for p in pending:
            if isinstance(p, Exception):
                outs.append({'err': exc_kind(p)})
                continue
            try:
                outs.append(mat(p))
            except Exception as e:  # noqa: BLE001
                outs.append({'err': exc_kind(e)})
    elif mode in ('interleave', 'nested') and qj['kind'] in ('query', 'frequent'):
        # two results of the same Database in flight at once: rows pulled alternately ('interleave'), or another query
        # run to completion after the first row of this one ('nested', e.g. a count inside a loop over the results)
        def row(r):
            return (r.airport1, r.airport2, r.number_of_flights) if qj['kind'] == 'frequent' else result_to_dict(r)

        try:
            if mode == 'interleave':
                its = [iter(db(q)), iter(db(q))]
                rows = [[], []]
                live = [True, True]
                while any(live):
                    for k in (0, 1):
                        if live[k]:
                            try:
                                rows[k].append(row(next(its[k])))
                            except StopIteration:
                                live[k] = False
                outs = [{'ok': rows[0]}, {'ok': rows[1]}]
            else:
                from AEIC.missions.query import CountQuery

                it = iter(db(q))
                got = []
                first = True
                for r in it:
                    got.append(row(r))
                    if first:
                        first = False
                        _ = db(CountQuery())
                        _ = list(db(make_query({'kind': 'query', 'limit': 3})))
                outs = [{'ok': got}]
        except Exception as e:  # noqa: BLE001
            outs = [{'err': exc_kind(e)}]
    elif mode == 'mutate' and qj.get('mut') and 'sample' not in qj and isinstance((qj.get('filter') or {}).get(qj['mut'][0]), list):
        # the filter of a live query object is changed in place between two runs (list.append on one of its list-valued
        # conditions): the second answer must be the answer for the filter the object carries NOW, i.e. equal to a fresh
        # query built with the changed filter
        import copy

        name, value = qj['mut']
        try:
            outs.append(mat(db(q)))
            getattr(q.filter, name).append(value)
            again = mat(db(q))
            qj2 = copy.deepcopy(qj)
            qj2['filter'][name] = list(qj2['filter'][name]) + [value]
            fresh = mat(db(make_query(qj2)))
            outs.append(dict(outs[0]) if again == fresh else {'err': 'internal:StaleAnswerAfterFilterChange'})
        except Exception as e:  # noqa: BLE001
            outs.append({'err': exc_kind(e)})
    else:
        if mode in ('interleave', 'nested', 'mutate'):
            mode = 'twice' 
        for _ in range({'once': 1, 'twice': 2, 'x4': 4}[mode]):
            try:
                outs.append(mat(db(q)))
            except Exception as e:  # noqa: BLE001
                outs.append({'err': exc_kind(e)})
    return outs


def _check_rows_fields(rows, info: DBInfo):
    """Every returned row must carry the fields of the joined tables for its instance id."""
    for r in rows:
        j = info.by_sid.get(r['id'])
        if j is None:
            return f'instance id {r["id"]} is not in the joined tables'
        exp = {
            'flight_id': j['f']['id'], 'dep': j['s']['dep'], 'arr': j['s']['arr'],
            'carrier': j['f']['carrier'], 'flight_number': j['f']['flight_number'], 'origin': j['ao']['iata'],
            'origin_country': j['ao']['country'], 'destination': j['ad']['iata'], 'destination_country': j['ad']['country'],
            'service_type': j['f']['service_type'], 'aircraft_type': j['f']['aircraft_type'],
            'engine_type': j['f']['engine_type'], 'distance': j['f']['distance'], 'seat_capacity': j['f']['seat_capacity'],
        }
        for k, v in exp.items():
            if r[k] != v and not (r[k] is None and v is None):
                return f'instance {r["id"]}: field {k} is {r[k]!r}, tables say {v!r}'
    return None


def _cmp_ordered(ids, exp_rows_sorted, window, info: DBInfo):
    """ids returned vs the documented answer (sorted matching rows, window applied), modulo ORDER BY ties."""
    limit, offset = window
    lo = offset or 0
    exp = exp_rows_sorted[lo: lo + limit] if limit is not None else exp_rows_sorted
    if len(ids) != len(set(ids)):
        return 'an instance is returned twice'
    matching = {r['s']['id'] for r in exp_rows_sorted}
    extra = [i for i in ids if i not in matching]
    if extra:
        return f'{len(extra)} returned instance(s) do not satisfy the conditions, e.g. id {extra[0]}'
    deps = [info.by_sid[i]['s']['dep'] for i in ids]
    edeps = [r['s']['dep'] for r in exp]
    if deps != edeps:
        if sorted(deps) == sorted(edeps):
            return 'results are not in departure-time order'
        return f'expected {len(edeps)} instance(s), got {len(deps)} (or different departure times)'
    return None


def _cmp_model_ids(impl_ids, model_ids, windowed, info: DBInfo):
    di = [info.by_sid[i]['s']['dep'] if i in info.by_sid else None for i in impl_ids]
    dm = [info.by_sid[i]['s']['dep'] if i in info.by_sid else None for i in model_ids]
    if di != dm:
        return f'departure sequences differ (impl {len(di)} rows, model {len(dm)} rows)'
    cut = {di[0], di[-1]} if (windowed and di) else set()
    a = {i for i, d in zip(impl_ids, di) if d not in cut}
    b = {i for i, d in zip(model_ids, dm) if d not in cut}
    if a != b:
        return f'instance sets differ: impl-only {sorted(a - b)[:5]} model-only {sorted(b - a)[:5]}'
    return None


def _binom_tails(n: int, p: float, k: int):
    """P(X <= k), P(X >= k) for X ~ Binomial(n, p), exact (log-space pmf)."""
    if p >= 1.0:
        return (1.0 if k >= n else 0.0), 1.0
    lp, lq = math.log(p), math.log1p(-p)
    pmf = [math.exp(math.lgamma(n + 1) - math.lgamma(i + 1) - math.lgamma(n - i + 1) + i * lp + (n - i) * lq)
           for i in range(n + 1)]
    return sum(pmf[:k + 1]), sum(pmf[k:])


def _all_or_nothing(ids, matching):
    """Sampling must draw per instance: a flight with >= HEAVY matching instances cannot plausibly be returned
    completely or not at all by a 50 % sample (probability 2**-(HEAVY-1) under independent draws)."""
    got = set(ids)
    groups: dict = {}
    for r in matching:
        groups.setdefault(r['f']['id'], []).append(r['s']['id'])
    for fid, sids in groups.items():
        if len(sids) >= HEAVY:
            k = sum(1 for i in sids if i in got)
            if k == 0 or k == len(sids):
                return (f'{k} of the {len(sids)} matching instances of flight {fid} returned by a 50 % sample: '
                        'instances of one flight are kept or dropped together')
    return None


def check_sem(ctx, case, db, info: DBInfo, model_out):
    """Clauses + correspondence for one executed query. Returns True if a clause failed."""
    qj, mode = case['q'], case.get('mode', 'once')
    kind = qj['kind']
    outs = impl_execute(db, qj, mode)
    valid = query_valid_doc(qj)
    skip_clause = has_empty_spatial(qj.get('filter'))
    failed = False

    def fail(clause, detail):
        nonlocal failed
        failed = True
        ctx.clause_fail(clause, case_for_replay(case), detail=detail)

    matching = None
    if valid:
        matching = [r for r in info.rows if spec_query(qj, r, info)]
        matching.sort(key=lambda r: r['s']['dep'])
    sample = qj.get('sample') if kind == 'query' else None
    for k, out in enumerate(outs):
        where = f'execution #{k + 1} ({mode})'
        if not valid:
            if 'ok' in out:
                fail('invalid_query_refused', f'{where}: out-of-domain parameters accepted')
            continue
        if 'err' in out:
            neff = filter_effective_conditions(qj['filter']) if qj.get('filter') is not None else None
            if neff == 0:
                fail('empty_filter_selects_all', f'{where}: query with an empty filter raised {out["err"]}')
            elif k > 0 or mode == 'live2':
                fail('rerun_same_answer', f'{where}: raised {out["err"]}')
            else:
                fail('valid_query_runs', f'{where}: valid query raised {out["err"]}')
            continue
        if skip_clause:
            ctx.count('sem:clauses-skipped-empty-spatial-list')
            continue
        res = out['ok']
        if kind == 'count':
            if sample is None and res != len(matching):
                fail('count_eq_length', f'{where}: count {res}, tables have {len(matching)} matching instance(s)')
        elif kind == 'frequent':
            groups: dict = {}
            for r in matching:
                key = tuple(sorted((r['ao']['iata'], r['ad']['iata'])))
                groups[key] = groups.get(key, 0) + 1
            limit = qj['limit'] if qj.get('limit') is not None else 20
            seen = set()
            for a1, a2, n in res:
                key = tuple(sorted((a1, a2)))
                if key in seen:
                    fail('frequent_direction_independent', f'{where}: pair {key} reported twice')
                seen.add(key)
                if groups.get(key, 0) != n:
                    fail('frequent_counts_true', f'{where}: pair {a1}-{a2} reported {n}, tables say {groups.get(key, 0)}')
            counts = [n for _, _, n in res]
            if counts != sorted(counts, reverse=True):
                fail('frequent_sorted_desc', f'{where}: counts not in descending order: {counts[:10]}')
            expc = sorted(groups.values(), reverse=True)[:limit]
            if counts != expc:
                fail('frequent_top_k', f'{where}: counts {counts[:10]} but the top {limit} routes have {expc[:10]}')
        else:
            ids = [r['id'] for r in res]
            msg = _check_rows_fields(res, info)
            if msg:
                fail('result_fields', f'{where}: {msg}')
            elif sample is None:
                msg = _cmp_ordered(ids, matching, (qj.get('limit'), qj.get('offset')), info)
                if msg:
                    fail('query_exact_sorted', f'{where}: {msg}')
            else:
                mids = {r['s']['id'] for r in matching}
                deps = [info.by_sid[i]['s']['dep'] for i in ids]
                if len(ids) != len(set(ids)) or not set(ids) <= mids:
                    fail('sample_subset', f'{where}: sampled result is not a subset of the matching instances')
                elif deps != sorted(deps):
                    fail('query_exact_sorted', f'{where}: sampled result not in departure order')
                elif qj.get('limit') is not None and len(ids) > qj['limit']:
                    fail('query_exact_sorted', f'{where}: more rows than the limit')
                elif qj.get('limit') is None and float(sample) == 0.5 and (msg := _all_or_nothing(ids, matching)):
                    fail('sample_per_instance', f'{where}: {msg}')
                elif qj.get('limit') is None:
                    n, p = len(matching), float(sample)
                    lo, hi = _binom_tails(n, p, len(ids))
                    if min(lo, hi) < 1e-12:
                        fail('sample_expected_size',
                             f'{where}: {len(ids)} of {n} instances for sample={p} (expected {n * p:.1f}; '
                             f'binomial tail probability {min(lo, hi):.1e})')
    # a query object is a value: all executions agree (sampling aside)
    oks = [o['ok'] for o in outs if 'ok' in o]
    if valid and sample is None and len(oks) > 1 and not skip_clause:
        def canon(res):
            if kind == 'query':
                return [r['dep'] for r in res], sorted(r['id'] for r in res)
            if kind == 'frequent':
                return [n for _, _, n in res], sorted((tuple(sorted((a, b))), n) for a, b, n in res)
            return res
        # with a LIMIT, ties at the window edge may legitimately resolve differently: compare order keys only
        cs = [canon(o) for o in oks]
        if kind == 'query' and qj.get('limit') is not None:
            cs = [c[0] for c in cs]
        if kind == 'frequent':
            cs = [c[0] for c in cs]
        if any(c != cs[0] for c in cs[1:]):
            fail('rerun_same_answer', 'executions of one query object gave different answers')
    # ---- correspondence with the model evaluators
    first = outs[0]
    if ('err' in first) != ('err' in model_out):
        ctx.diverge('Database(query) outcome', case_for_replay(case),
                    f'impl={first.get("err", "ok")} model={model_out.get("err", "ok")}')
    elif 'ok' in first:
        res, mres = first['ok'], model_out['ok']
        if kind == 'count':
            if sample is None and res != mres:
                ctx.diverge('count', case_for_replay(case), f'impl={res} model={mres}')
        elif kind == 'frequent':
            ic, mc = [n for _, _, n in res], [n for _, n in mres]
            cutn = {ic[-1]} if ic else set()
            ia = sorted((a + b, n) for a, b, n in res if n not in cutn)
            ma = sorted((k, n) for k, n in mres if n not in cutn)
            if ic != mc or ia != ma:
                ctx.diverge('frequent', case_for_replay(case), f'impl={res[:6]} model={mres[:6]}')
        else:
            ids = [r['id'] for r in res]
            if sample is None:
                msg = _cmp_model_ids(ids, mres, qj.get('limit') is not None, info)
            else:  # model result is the unsampled, unwindowed answer
                msg = None if set(ids) <= set(mres) else 'sampled impl result not inside the model answer'
            if msg:
                ctx.diverge('query rows', case_for_replay(case), msg)
    nconds = (filter_effective_conditions(qj['filter']) if qj.get('filter') else 0) + sum(
        qj.get(k) is not None for k in ('start', 'end', 'every_nth', 'sample', 'limit'))
    ctx.count(f'sem:{kind}:{mode}:' + ('refused' if 'err' in first else 'ok'))
    if matching is not None:
        ctx.count('sem:matching:' + ('none' if not matching else 'all' if len(matching) == len(info.rows) else 'some'))
    ctx.case(('s', case.get('dbid'), json.dumps(qj, sort_keys=True), mode), nontrivial=nconds > 0 or mode != 'once',
             sample={'q': qj, 'mode': mode, 'impl': first.get('err') or (first['ok'] if kind == 'count' else len(first['ok']))})
    return failed


_DB_DUMPS: dict = {'shipped': 'shipped'}


def case_for_replay(case):
    c = dict(case)
    if case.get('dbid') in _DB_DUMPS:
        c['db'] = _DB_DUMPS[case['dbid']]
    return c


def sem_model_ops(info: DBInfo, qjs: list[dict]):
    return [{'op': 'c14.eval', 'db': info.model_json(),
             'qs': [query_to_model(q, drop_window=(q.get('sample') is not None and q['kind'] == 'query' and query_valid_doc(q))) for q in qjs]}]


def run_sem_batch(ctx, path: str, dbid, cases):
    """Evaluate semantic cases on one database file."""
    from AEIC.missions import Database

    info = DBInfo(path)
    if not info.integrity:
        ctx.notes.append(f'database {dbid}: {len(info.schedules) - len(info.rows)} schedule rows do not join')
    mouts = ctx.driver.outs(sem_model_ops(info, [c['q'] for c in cases]))[0]
    bad = []
    with Database(path) as db:
        for c, m in zip(cases, mouts):
            c = dict(c, dbid=dbid)
            nd = len(ctx.divergences)
            if check_sem(ctx, c, db, info, m) or len(ctx.divergences) > nd:
                bad.append(c)
    ctx.extra['rtree_band_width_deg'] = max(ctx.extra.get('rtree_band_width_deg', 0.0), info.band)
    return bad, info


def gen_sem_cases(rng, info: DBInfo, n: int):
    pools = info.pools(rng)
    cases = []
    for _ in range(n):
        q = gen_query(rng, pools)
        mode = str(rng.choice(['once', 'once', 'twice', 'live2', 'interleave', 'nested', 'mutate']))
        if mode == 'mutate':
            lists = [k for k, v in (q.get('filter') or {}).items() if isinstance(v, list) and v and not k.endswith('bounding_box')]
            if lists:
                name = str(rng.choice(sorted(lists)))
                pool = pools['service'] if name == 'service_type' else pools['aircraft'] if name == 'aircraft_type' else \
                    pools['continent'] if name.endswith('continent') else pools['country'] if name.endswith('country') else pools['iata']
                cand = [x for x in pool if x not in q['filter'][name]]
                if cand:
                    q['mut'] = [name, cand[int(rng.integers(0, len(cand)))]]
        cases.append({'type': 'sem', 'q': q, 'mode': mode})
    # structured: empty filter, everything, paging, repeated sampling
    cases.append({'type': 'sem', 'q': {'kind': 'query', 'filter': {}}, 'mode': 'once'})
    cases.append({'type': 'sem', 'q': {'kind': 'count', 'filter': {}}, 'mode': 'once'})
    cases.append({'type': 'sem', 'q': {'kind': 'count'}, 'mode': 'twice'})
    cases.append({'type': 'sem', 'q': {'kind': 'frequent', 'limit': 1000}, 'mode': 'twice'})
    d0 = pools['days'][0]
    cases.append({'type': 'sem', 'q': {'kind': 'query', 'start': _iso(d0 + 1), 'end': _iso(d0 + 1)}, 'mode': 'live2'})
    cases.append({'type': 'sem', 'q': {'kind': 'count', 'start': _iso(d0 + 1), 'end': _iso(d0 + 2)}, 'mode': 'twice'})
    cases.append({'type': 'sem', 'q': {'kind': 'query', 'every_nth': 2, 'limit': 4, 'offset': 2}, 'mode': 'twice'})
    per_flight: dict = {}
    for r in info.rows:
        per_flight[r['f']['id']] = per_flight.get(r['f']['id'], 0) + 1
    heavy = [fid for fid, n in per_flight.items() if n >= HEAVY]
    for fid in heavy[:1]:
        f = info.flights[fid]
        cases.append({'type': 'sem', 'mode': 'twice', 'q': {'kind': 'query', 'sample': 0.5, 'filter': {
            'min_distance': f['distance'], 'max_distance': f['distance']}}})
        cases.append({'type': 'sem', 'mode': 'once', 'q': {'kind': 'query', 'sample': 0.5, 'filter': {
            'aircraft_type': f['aircraft_type'], 'min_seat_capacity': f['seat_capacity']}}})
    for kind in ('query', 'count', 'frequent'):
        for flt in ({'max_seat_capacity': 0}, {'max_distance': 0}, {'min_seat_capacity': 0, 'max_seat_capacity': 0}):
            cases.append({'type': 'sem', 'q': {'kind': kind, 'filter': flt}, 'mode': 'once'})
    if len(info.rows) >= 150:
        cases.append({'type': 'sem', 'q': {'kind': 'query', 'sample': 0.5}, 'mode': 'x4'})
        cases.append({'type': 'sem', 'q': {'kind': 'query', 'sample': 0.5,
                                           'filter': {'min_distance': 0}}, 'mode': 'x4'})
    return cases


def shipped_db() -> str:
    return str(REPO / 'tests' / 'data' / 'missions' / 'oag-2019-test-subset.sqlite')


# =========================================================================== replay / corpus
def evaluate_case(ctx, case, tmp: str) -> bool:
    """Re-run one stored case (any type) against the implementation. True if a clause fails / it diverges."""
    nv, nd = len(ctx.violations), len(ctx.divergences)
    if case['type'] in ('filter', 'builds'):
        run_text(ctx, [case])
        resolve_text_variants(ctx, [shipped_db()])
    else:
        if case.get('db') == 'shipped' or (case.get('db') is None and case.get('dbid') == 'shipped'):
            path = shipped_db()
            dbid = 'shipped'
        else:
            dbid = case.get('dbid', 'replay')
            path = str(Path(tmp) / f'replay_{abs(hash(json.dumps(case["db"], sort_keys=True)))}.sqlite')
            if not Path(path).exists():
                build_db(case['db'], path)
            _DB_DUMPS[dbid] = case['db']
        run_sem_batch(ctx, path, dbid, [{k: v for k, v in case.items() if k not in ('db', 'dbid')}])
    return len(ctx.violations) > nv or len(ctx.divergences) > nd


def run_corpus(ctx, tmp):
    d = CORPUS_DIR / PID
    if not d.exists():
        return
    for p in sorted(d.glob('*.json')):
        data = json.loads(p.read_text())
        ctx.count('corpus')
        if evaluate_case(ctx, data['case'], tmp):
            ctx.notes.append(f'corpus case {p.name} fails again')


def replay(ctx, path) -> int:
    data = json.loads(Path(path).read_text())
    case = data.get('case') or data.get('first', {}).get('case')
    if case is None and data.get('divergences'):
        case = data['divergences'][0]['case']
    if case is None:
        print(f'[{PID}] replay file names no concrete input: {data.get("broken_obligations")}')
        return 0
    aeic_setup()
    tmp = tempfile.mkdtemp(prefix='c14_')
    try:
        evaluate_case(ctx, case, tmp)
    finally:
        gc.collect()
        shutil.rmtree(tmp, ignore_errors=True)
    for v in ctx.violations:
        print(f'[{PID}] replay: clause {v["clause"]} FAILS on the implementation: {v["detail"]}')
    for d in ctx.divergences:
        print(f'[{PID}] replay: model and implementation differ ({d["correspondence"]}): {d["detail"][:300]}')
    if not ctx.violations and not ctx.divergences:
        print(f'[{PID}] replay: all clauses hold and the model agrees on this input')
    return 1 if ctx.violations else 0


# =========================================================================== widened search
def widen(ctx, bad_cases, tmp, dbs):
    """After a divergence without a clause failure: look for a concrete failing input around the diverging
    cases (their filters/queries executed in every mode and kind on generated databases and the shipped one)."""
    if ctx.violations or not bad_cases:
        return
    seeds = []
    for c in bad_cases[:12]:
        if c['type'] == 'filter':
            qs = [{'kind': k, 'filter': c['filter']} for k in ('query', 'count', 'frequent')]
        elif c['type'] == 'builds':
            qs = c['qs'][:3]
        else:
            qs = [c['q']]
        seeds += qs
    modes = ['once', 'twice', 'live2']
    for dbid, path in dbs[:4] + [('shipped', shipped_db())]:
        cases = [{'type': 'sem', 'q': q, 'mode': m} for q in seeds for m in modes]
        run_sem_batch(ctx, path, dbid, cases)
        ctx.count('widened-search-cases', len(cases))
        if ctx.violations:
            return


# =========================================================================== main
def main(ctx) -> int:
    ctx.proofs()
    aeic_setup()
    tmp = tempfile.mkdtemp(prefix='c14_')
    try:
        run_corpus(ctx, tmp)
        bad = run_text(ctx, text_cases(ctx, ctx.scale(quick=4000, thorough=120000)))
        ndb = ctx.scale(quick=60, thorough=1800)
        per_db = ctx.scale(quick=40, thorough=80)
        dbs = []
        for i in range(ndb):
            dump = gen_db_dump(ctx.rng)
            path = str(Path(tmp) / f'gen{i}.sqlite')
            build_db(dump, path)
            dbid = f'gen{i}'
            _DB_DUMPS[dbid] = dump
            info = DBInfo(path)
            b, _ = run_sem_batch(ctx, path, dbid, gen_sem_cases(ctx.rng, info, per_db))
            bad += b
            if i < 4:
                dbs.append((dbid, path))
            else:
                _DB_DUMPS.pop(dbid, None)
                Path(path).unlink(missing_ok=True)
        info = DBInfo(shipped_db())
        days_ok = all(s['day'] == s['dep'] // 86400 for s in info.schedules)
        ctx.extra['shipped_db'] = {'instances': len(info.schedules), 'joined': len(info.rows),
                                   'day_is_utc_day_of_departure': days_ok}
        b, _ = run_sem_batch(ctx, shipped_db(), 'shipped',
                             gen_sem_cases(ctx.rng, info, ctx.scale(quick=150, thorough=5000)))
        bad += b
        # the same kind of queries with the PROCESS time zone away from UTC: start and end dates mean whole UTC days whatever the
        # zone the process runs in (a query object is a value, not a function of the environment)
        import os as _os
        import time as _time

        old_tz = _os.environ.get('TZ')
        try:
            for zone in ('America/New_York', 'Asia/Tokyo'):
                _os.environ['TZ'] = zone
                _time.tzset()
                ctx.count('process_time_zone:' + zone)
                b, _ = run_sem_batch(ctx, shipped_db(), 'shipped',
                                     gen_sem_cases(ctx.rng, info, ctx.scale(quick=60, thorough=1500)))
                bad += b
        finally:
            if old_tz is None:
                _os.environ.pop('TZ', None)
            else:
                _os.environ['TZ'] = old_tz
            _time.tzset()
        nd = len(ctx.divergences)
        resolve_text_variants(ctx, [p for _, p in dbs] + [shipped_db()])
        bad += [d['case'] for d in ctx.divergences[nd:]]
        if (ctx.divergences or ctx.broken) and not ctx.violations:
            widen(ctx, bad, tmp, dbs)
    finally:
        gc.collect()
        shutil.rmtree(tmp, ignore_errors=True)
    return ctx.finish(RULE, TRUSTED, ASSUME)
