"""C15 — ground tracks and mission distances are true WGS-84 great circles.

Correspondence (a): real `GroundTrack` / `Mission` with `GEOD` patched by an exact axis-aligned "Manhattan world"
stub; the Lean model runs its own `Geo.manhattan`; everything is compared exactly.
Correspondence (b): real pyproj; every `GEOD.inv/fwd` call of the implementation is recorded and handed to the
model as a finite oracle table (exact-bit lookup; a query the implementation never made yields NaN in the model and so
a divergence); everything is compared exactly.
Clauses on the implementation's output: re-derivation with an independent `pyproj.Geod` (b) / an independent
polyline walker (a).
"""
from __future__ import annotations

import json
import math
from pathlib import Path

from harness.common import CORPUS_DIR, aeic_setup, close, f2u, u2f

PID = 'C15'
RULE = ('tracks: (a) axis-aligned polylines on a 1/4-degree lattice in the Manhattan world (2-7 waypoints, zero-length '
        'legs included, both overstep settings), (b) real WGS-84 pairs/tracks: random global, antimeridian-crossing, '
        'near-polar, near-antipodal, equal-longitude, equal-latitude, repeated waypoints, random-walk multi-waypoint; '
        'queries: 0, total, every waypoint distance and its float neighbours, random interior, negative, beyond the end, '
        'steps inside a leg / across a waypoint / from a waypoint / past the end / from beyond the end / negative; '
        'missions: airport pairs and synthetic positions, both directions. A case is one (track, query) or one mission pair; '
        'non-trivial = not the pos==0 shortcut of a 2-point track.')
TRUSTED = ['Lean 4.33 kernel', 'axioms propext/Classical.choice/Quot.sound', 'Mathlib v4.33',
           'correspondence harness harness/c15.py (GEOD recording proxy, Manhattan stub, independent polyline walker)',
           'pyproj/PROJ geodesics ARE WGS-84 geodesics and satisfy the per-leg laws (Geo.LegLaws) for non-antipodal legs',
           "CPython bisect_left on a non-decreasing list = number of leading entries < x",
           'CPython float % for |x| < 360 (exact fmod) as transcribed in Geo.pymod360']
ASSUME = ['IEEE rounding is not modelled: theorems are over the reals; impl vs Float model compared exactly (only + and - '
          'and % occur outside the geodesic oracle)',
          'geodesic laws are hypotheses of the theorems (LegLaws), exhibited satisfiable by the Manhattan world',
          'clause tolerances on real pyproj: positions 1e-6 m (1e-3 m for near-antipodal legs), lengths rtol 1e-9 + 1e-6 m']

SX, SY = 2.0, 4.0


# --------------------------------------------------------------------------- geodesic stand-ins
class ManhattanGeod:
    """Exact axis-aligned world; mirrors `Aeic.Geo.manhattan` operation by operation."""

    def __init__(self, sx=SX, sy=SY):
        self.sx, self.sy = sx, sy

    def _inv1(self, lon1, lat1, lon2, lat2):
        sx, sy = self.sx, self.sy
        if lat1 < lat2 or lat2 < lat1:
            if lon1 < lon2 or lon2 < lon1:
                return (45.0, -135.0, abs(lon2 - lon1) * sx + abs(lat2 - lat1) * sy)
            if lat1 < lat2:
                return (0.0, 180.0, (lat2 - lat1) * sy)
            return (180.0, 0.0, (lat1 - lat2) * sy)
        if lon2 < lon1:
            return (-90.0, 90.0, (lon1 - lon2) * sx)
        return (90.0, -90.0, (lon2 - lon1) * sx)

    def inv(self, lon1, lat1, lon2, lat2):
        if isinstance(lon1, (list, tuple)):
            r = [self._inv1(*q) for q in zip(lon1, lat1, lon2, lat2)]
            return [x[0] for x in r], [x[1] for x in r], [x[2] for x in r]
        return self._inv1(lon1, lat1, lon2, lat2)

    def fwd(self, lon, lat, az, dist):
        sx, sy = self.sx, self.sy

        def is_(v):
            return not (az < v) and not (v < az)

        if is_(90.0):
            return (lon + dist / sx, lat, -90.0)
        if is_(-90.0) or is_(270.0):
            return (lon - dist / sx, lat, 90.0)
        if is_(180.0) or is_(-180.0):
            return (lon, lat - dist / sy, 0.0)
        return (lon, lat + dist / sy, 180.0)


class RecGeod:
    """Recording proxy around the real pyproj Geod."""

    def __init__(self, real):
        self.real = real
        self.inv_calls = []
        self.fwd_calls = []

    def inv(self, lon1, lat1, lon2, lat2):
        r = self.real.inv(lon1, lat1, lon2, lat2)
        if isinstance(lon1, (list, tuple)):
            for q in zip(lon1, lat1, lon2, lat2, r[0], r[1], r[2]):
                self.inv_calls.append((tuple(float(x) for x in q[:4]), tuple(float(x) for x in q[4:])))
        else:
            self.inv_calls.append(((float(lon1), float(lat1), float(lon2), float(lat2)), tuple(float(x) for x in r)))
        return r

    def fwd(self, lon, lat, az, dist):
        r = self.real.fwd(lon, lat, az, dist)
        self.fwd_calls.append(((float(lon), float(lat), float(az), float(dist)), tuple(float(x) for x in r)))
        return r


class Env:
    def __init__(self):
        aeic_setup()
        import pyproj
        import AEIC.missions.mission as mmod
        import AEIC.trajectories.ground_track as gtmod
        from AEIC.types import Location, Position

        self.gtmod, self.mmod = gtmod, mmod
        self.Location, self.Position = Location, Position
        self.real = gtmod.GEOD
        self.real_m = mmod.GEOD
        self.fresh = pyproj.Geod(ellps='WGS84')  # independent instance for the clauses
        import AEIC.utils.airports as amod

        amod.airport('BOS')  # force the lazy load
        table = getattr(getattr(amod, '_airports', None), '_airports', None) or {}
        self.airports = sorted(c for c in table if amod.airport(c) is not None) or ['BOS', 'LAX', 'JFK', 'ATL', 'SFO']

    def patch(self, g):
        self.gtmod.GEOD = g
        self.mmod.GEOD = g

    def restore(self):
        self.gtmod.GEOD = self.real
        self.mmod.GEOD = self.real_m


def _exc_kind(env, e):
    if isinstance(e, env.gtmod.GroundTrack.Exception):
        return 'refused'
    return 'internal:' + type(e).__name__


# --------------------------------------------------------------------------- running one case on the implementation
def run_track_impl(env, case):
    """case: {'kind':'track','world':..,'wps':[[lon,lat]..],'overstep':bool,'queries':[..]} -> impl observation"""
    world = case['world']
    geod = ManhattanGeod() if world == 'manhattan' else RecGeod(env.real)
    env.patch(geod)
    try:
        GT = env.gtmod.GroundTrack
        wps = [env.Location(float(lo), float(la)) for lo, la in case['wps']]
        obs = {'results': []}
        try:
            if case.get('via_great_circle') and len(wps) == 2:
                # the documented shortcut for two end points (what the trajectory builders call)
                t = GT.great_circle(wps[0], wps[1], allow_overstep=bool(case['overstep']))
            else:
                t = GT(wps, allow_overstep=bool(case['overstep']))
        except Exception as e:  # noqa: BLE001
            obs['init_error'] = 'internal:' + type(e).__name__
            return obs, geod
        obs['index'] = [float(x) for x in t.index]
        obs['azs'] = [float(x) for x in t.azimuths]
        obs['total'] = float(t.total_distance)
        for q in case['queries']:
            try:
                if q['k'] == 'loc':
                    p = t.location(q['d'])
                    r = {'ok': [float(p.location.longitude), float(p.location.latitude), float(p.azimuth)]}
                elif q['k'] == 'step':
                    p = t.step(q['a'], q['b'])
                    r = {'ok': [float(p.location.longitude), float(p.location.latitude), float(p.azimuth)]}
                else:
                    r = {'pos': int(t.lookup_waypoint(q['d']))}
            except Exception as e:  # noqa: BLE001
                r = {'err': _exc_kind(env, e)}
            obs['results'].append(r)
        return obs, geod
    finally:
        env.restore()


def track_model_op(case, geod):
    op = {'op': 'geo.track', 'world': case['world'], 'wps': [[f2u(lo), f2u(la)] for lo, la in case['wps']],
          'overstep': bool(case['overstep']), 'queries': []}
    if case['world'] == 'manhattan':
        op['sx'], op['sy'] = f2u(SX), f2u(SY)
    else:
        op['inv_table'] = [{'k': [f2u(x) for x in k], 'v': [f2u(x) for x in v]} for k, v in geod.inv_calls]
        op['fwd_table'] = [{'k': [f2u(x) for x in k], 'v': [f2u(x) for x in v]} for k, v in geod.fwd_calls]
    for q in case['queries']:
        if q['k'] == 'step':
            op['queries'].append({'k': 'step', 'a': f2u(q['a']), 'b': f2u(q['b'])})
        else:
            op['queries'].append({'k': q['k'], 'd': f2u(q['d'])})
    return op


def _same(a, b):
    return a == b or (math.isnan(a) and math.isnan(b))


def compare_track(ctx, case, obs, mout):
    """exact comparison implementation vs model; returns number of divergences found"""
    n0 = len(ctx.divergences)
    if 'init_error' in obs:
        ctx.diverge('GroundTrack.__init__', case, f"implementation raised {obs['init_error']}, model builds the track")
        return 1
    mi = [u2f(x) for x in mout['index']]
    ma = [u2f(x) for x in mout['azs']]
    if len(mi) != len(obs['index']) or not all(_same(a, b) for a, b in zip(mi, obs['index'])):
        ctx.diverge('GroundTrack.index', case, f"impl {obs['index']} model {mi}")
    if len(ma) != len(obs['azs']) or not all(_same(a, b) for a, b in zip(ma, obs['azs'])):
        ctx.diverge('GroundTrack.azimuths', case, f"impl {obs['azs']} model {ma}")
    if not _same(u2f(mout['total']), obs['total']):
        ctx.diverge('GroundTrack.total_distance', case, f"impl {obs['total']} model {u2f(mout['total'])}")
    for q, ri, rm in zip(case['queries'], obs['results'], mout['results']):
        if 'ok' in ri:
            if 'ok' not in rm:
                ctx.diverge('GroundTrack.' + q['k'], dict(case, queries=[q]), f'impl returns {ri}, model refuses ({rm})')
            else:
                mv = [u2f(x) for x in rm['ok']]
                if not all(_same(a, b) for a, b in zip(mv, ri['ok'])):
                    ctx.diverge('GroundTrack.' + q['k'], dict(case, queries=[q]), f"impl {ri['ok']} model {mv}")
        elif 'pos' in ri:
            if rm.get('pos') != ri['pos']:
                ctx.diverge('GroundTrack.lookup_waypoint', dict(case, queries=[q]), f'impl {ri} model {rm}')
        else:
            if ri['err'] != 'refused' or 'err' not in rm:
                ctx.diverge('GroundTrack.' + q['k'], dict(case, queries=[q]), f'impl {ri} model {rm}')
    return len(ctx.divergences) - n0


# --------------------------------------------------------------------------- independent references for the clauses
def manhattan_walk(wps, d):
    """independent reference: point at along-track distance d of an axis-aligned polyline (exact arithmetic on the lattice)"""
    cum = 0.0
    for (lo1, la1), (lo2, la2) in zip(wps[:-1], wps[1:]):
        if la1 == la2:
            ln = abs(lo2 - lo1) * SX
        else:
            ln = abs(la2 - la1) * SY
        if d <= cum + ln and ln > 0:
            r = d - cum
            if la1 == la2:
                return (lo1 + math.copysign(r / SX, lo2 - lo1), la1)
            return (lo1, la1 + math.copysign(r / SY, la2 - la1))
        cum += ln
    return tuple(wps[-1])


def manhattan_total(wps):
    return sum(abs(b[0] - a[0]) * SX + abs(b[1] - a[1]) * SY for a, b in zip(wps[:-1], wps[1:]))


def manhattan_beyond(wps, d):
    """continue the last non-degenerate... the LAST leg's direction beyond the end"""
    (lo1, la1), (lo2, la2) = wps[-2], wps[-1]
    r = d - manhattan_total(wps)
    if la1 != la2:
        return (lo2, la2 + math.copysign(r / SY, la2 - la1))
    if lo2 < lo1:
        return (lo2 - r / SX, la2)
    return (lo2 + r / SX, la2)  # east, also the stub's choice for a zero-length last leg


def track_clauses(ctx, env, case, obs):
    """the property's clauses evaluated on the implementation's output"""
    if 'init_error' in obs:
        ctx.clause_fail('track_constructible', case, detail=obs['init_error'])
        return
    wps = [tuple(map(float, w)) for w in case['wps']]
    man = case['world'] == 'manhattan'
    ov = bool(case['overstep'])
    F = env.fresh
    # leg lengths / azimuths from an independent source
    if man:
        legs = [abs(b[0] - a[0]) * SX + abs(b[1] - a[1]) * SY for a, b in zip(wps[:-1], wps[1:])]
        legaz = [None] * len(legs)
    else:
        inv = [F.inv(a[0], a[1], b[0], b[1]) for a, b in zip(wps[:-1], wps[1:])]
        legs = [x[2] for x in inv]
        legaz = [x[0] for x in inv]
    cum = [0.0]
    for x in legs:
        cum.append(cum[-1] + x)
    total_ref = cum[-1]
    near_antipodal = (not man) and any(x > 19.9e6 for x in legs)
    ptol = 1e-3 if near_antipodal else 1e-6

    def bad(cl, q, detail):
        ctx.clause_fail(cl, dict(case, queries=[q] if q is not None else []), detail=detail)

    # clause: total length = sum of geodesic distances
    tot = obs['total']
    if not (tot == total_ref if man else close(tot, total_ref, 1e-9, 1e-6)):
        bad('total_eq_sum_dist', None, f'total_distance {tot!r} vs sum of WGS-84 leg lengths {total_ref!r}')

    def pos_err(p, ref):
        if man:
            return 0.0 if (p[0] == ref[0] and p[1] == ref[1]) else math.inf
        if any(math.isnan(x) for x in p[:2]):
            return math.inf
        return F.inv(p[0], p[1], ref[0], ref[1])[2]

    def ref_point(d):
        """independent along-track point and distance from the leg start"""
        if man:
            return manhattan_walk(wps, d), None
        k = 0
        while k < len(legs) - 1 and d > cum[k + 1]:
            k += 1
        lo, la, _ = F.fwd(wps[k][0], wps[k][1], legaz[k], d - cum[k])
        return (lo, la), (k, d - cum[k])

    for q, r in zip(case['queries'], obs['results']):
        if q['k'] == 'lookup':
            continue
        tgt = q['d'] if q['k'] == 'loc' else q['a'] + q['b']
        inside = 0.0 <= tgt <= tot
        if 'ok' in r:
            lo, la, az = r['ok']
            # clause: azimuth convention
            if not (0.0 <= az <= 360.0):
                bad('azimuth_in_range', q, f'azimuth {az!r} outside [0, 360]')
            if inside:
                ref, legpos = ref_point(min(max(tgt, 0.0), total_ref))
                e = pos_err((lo, la), ref)
                if not e <= ptol:
                    bad('location_on_track_at_d', q, f'returned ({lo!r}, {la!r}) but the point at {tgt!r} m along the track is {ref} (off by {e} m)')
                elif legpos is not None and legs[legpos[0]] < 19.0e6:
                    k, along = legpos
                    dd = F.inv(wps[k][0], wps[k][1], lo, la)[2]
                    if not close(dd, along, 1e-9, 1e-5):
                        bad('location_on_track_at_d', q, f'distance from waypoint {k} is {dd!r}, requested {along!r}')
            elif tgt > tot:
                # beyond the end: only a step on an overstep track may answer
                if q['k'] == 'loc' or not ov:
                    bad('out_of_range_refused', q, f'request at {tgt!r} beyond total {tot!r} answered {r}')
                else:
                    if man:
                        ref = manhattan_beyond(wps, tgt)
                    else:
                        back = F.inv(wps[-2][0], wps[-2][1], wps[-1][0], wps[-1][1])[1]
                        ref1 = F.fwd(wps[-2][0], wps[-2][1], legaz[-1], tgt - cum[-2])[:2]
                        ref = F.fwd(wps[-1][0], wps[-1][1], back + 180.0, tgt - total_ref)[:2]
                        e1 = pos_err((lo, la), ref1)
                        if not e1 <= ptol:
                            bad('overstep_on_same_geodesic', q, f'returned ({lo!r}, {la!r}), last geodesic prolonged gives {ref1} (off by {e1} m)')
                            continue
                    e = pos_err((lo, la), ref)
                    lim = ptol if man else max(ptol, 1e-9 * abs(tgt))
                    if not e <= lim:
                        bad('overstep_on_same_geodesic', q, f'returned ({lo!r}, {la!r}), continuing from the last waypoint gives {ref} (off by {e} m)')
            else:
                bad('out_of_range_refused', q, f'request at {tgt!r} (negative / NaN) answered {r}')
        else:
            if r['err'] != 'refused':
                bad('no_internal_error', q, f'{r}')
                continue
            # refusals that the property does not allow
            if q['k'] == 'loc' and inside:
                bad('location_on_track_at_d', q, f'in-range distance {tgt!r} (total {tot!r}) refused')
            if q['k'] == 'step' and q['a'] >= 0 and q['b'] >= 0 and ov and not math.isnan(tgt):
                bad('overstep_on_same_geodesic' if tgt > tot else 'step_eq_location', q, 'step refused although overstepping is allowed')
    # clause: step(a, b) == location(a + b) whenever both answer
    by_d = {}
    for q, r in zip(case['queries'], obs['results']):
        if q['k'] == 'loc' and 'ok' in r:
            by_d[f2u(q['d'])] = r['ok']
    for q, r in zip(case['queries'], obs['results']):
        if q['k'] == 'step' and 'ok' in r and f2u(q['a'] + q['b']) in by_d:
            o = by_d[f2u(q['a'] + q['b'])]
            if not all(_same(x, y) for x, y in zip(o, r['ok'])):
                bad('step_eq_location', q, f"step gives {r['ok']}, location(a+b) gives {o}")
    # clause: a step whose target is on the track and which crosses no waypoint must answer (the only documented
    # refusal on the track is "step would cross a waypoint"); arriving exactly at a waypoint is not a crossing
    idx = obs['index']
    for q, r in zip(case['queries'], obs['results']):
        if q['k'] == 'step' and 'err' in r and q['a'] >= 0 and q['b'] >= 0:
            a, t_ = q['a'], q['a'] + q['b']
            if 0.0 <= a and t_ <= tot and not any(a < x < t_ for x in idx):
                bad('step_eq_location', q, f'step from {a!r} by {q["b"]!r} crosses no waypoint (index {idx}) but is refused')
    # clause: the azimuth of an interior point is the direction of travel towards the next waypoint
    for q, r in zip(case['queries'], obs['results']):
        if q['k'] == 'loc' and 'ok' in r:
            d = q['d']
            ks = [k for k in range(len(idx) - 1) if idx[k] < d < idx[k + 1]]
            if not ks or idx[ks[0] + 1] - d < 1.0 and not man:
                continue
            k = ks[0]
            lo, la, az = r['ok']
            if man:
                (lo1, la1), (lo2, la2) = wps[k], wps[k + 1]
                if (lo, la) == (lo2, la2):
                    continue
                want = 0.0 if la2 > la1 else 180.0 if la2 < la1 else 90.0 if lo2 > lo1 else 270.0
            else:
                want = F.inv(lo, la, wps[k + 1][0], wps[k + 1][1])[0] % 360.0
            diff = abs(az - want) % 360.0
            if min(diff, 360.0 - diff) > 1e-9:
                bad('azimuth_points_along_track', q, f'azimuth {az!r} reported, direction towards the next waypoint is {want!r}')


# --------------------------------------------------------------------------- missions
def run_gc_impl(env, case):
    """case: {'kind':'gc','world':..,'o':[lon,lat]|code,'d':[lon,lat]|code}"""
    import pandas as pd

    world = case['world']
    geod = ManhattanGeod() if world == 'manhattan' else RecGeod(env.real)
    env.patch(geod)
    try:
        M = env.mmod.Mission

        def mk(o, d):
            ocode = o if isinstance(o, str) else 'BOS'
            dcode = d if isinstance(d, str) else 'LAX'
            m = M(origin=ocode, destination=dcode, aircraft_type='738', departure=pd.Timestamp('2024-01-01 12:00', tz='UTC'),
                  arrival=pd.Timestamp('2024-01-01 18:00', tz='UTC'), load_factor=1.0)
            if not isinstance(o, str):
                m.__dict__['origin_position'] = env.Position(float(o[0]), float(o[1]), 0.0)
            if not isinstance(d, str):
                m.__dict__['destination_position'] = env.Position(float(d[0]), float(d[1]), 0.0)
            return m

        obs = {}
        try:
            m = mk(case['o'], case['d'])
            op, dp = m.origin_position, m.destination_position
            obs['o'] = [float(op.longitude), float(op.latitude)]
            obs['d'] = [float(dp.longitude), float(dp.latitude)]
            obs['gc'] = float(m.gc_distance)
            obs['gc_rev'] = float(mk(case['d'], case['o']).gc_distance)
            t = env.gtmod.GroundTrack.great_circle(op.location, dp.location)
            obs['track_total'] = float(t.total_distance)
        except Exception as e:  # noqa: BLE001
            obs['error'] = 'internal:' + type(e).__name__ + ': ' + str(e)[:80]
        return obs, geod
    finally:
        env.restore()


def gc_model_op(case, obs, geod):
    op = {'op': 'geo.gcdist', 'world': case['world'], 'o': [f2u(x) for x in obs['o']], 'd': [f2u(x) for x in obs['d']]}
    if case['world'] == 'manhattan':
        op['sx'], op['sy'] = f2u(SX), f2u(SY)
    else:
        op['inv_table'] = [{'k': [f2u(x) for x in k], 'v': [f2u(x) for x in v]} for k, v in geod.inv_calls]
        op['fwd_table'] = []
    return op


def gc_check(ctx, env, case, obs, mout):
    if 'error' in obs:
        ctx.clause_fail('gc_distance_eq_track_length', case, detail=obs['error'])
        return
    fixed, asf = u2f(mout['fixed']), u2f(mout['as_found'])
    if not _same(fixed, obs['gc']):
        which = 'the as-found (lat, lon, lat, lon) variant' if _same(asf, obs['gc']) else 'neither variant'
        ctx.diverge('Mission.gc_distance', case, f"impl {obs['gc']!r} model {fixed!r}; impl agrees with {which}")
    man = case['world'] == 'manhattan'
    if man:
        ref = abs(obs['d'][0] - obs['o'][0]) * SX + abs(obs['d'][1] - obs['o'][1]) * SY
    else:
        ref = env.fresh.inv(obs['o'][0], obs['o'][1], obs['d'][0], obs['d'][1])[2]
    gc = obs['gc']
    ok_len = (gc == ref and gc == obs['track_total']) if man else (
        close(gc, ref, 1e-9, 1e-6) and close(gc, obs['track_total'], 1e-9, 1e-6))
    if not ok_len:
        ctx.clause_fail('gc_distance_eq_track_length', case,
                        detail=f"gc_distance {gc!r} m; ground track between the airports {obs['track_total']!r} m; WGS-84 geodesic {ref!r} m")
    ok_sym = (gc == obs['gc_rev']) if man else close(gc, obs['gc_rev'], 1e-9, 1e-6)
    if not ok_sym:
        ctx.clause_fail('gc_distance_symmetric', case, detail=f"{gc!r} one way, {obs['gc_rev']!r} the other")


# --------------------------------------------------------------------------- generators
def _ulp_nbrs(x):
    return [math.nextafter(x, -math.inf), math.nextafter(x, math.inf)]


def gen_manhattan_track(rng):
    n = int(rng.integers(2, 8))
    lo = float(rng.integers(-200, 200)) / 4
    la = float(rng.integers(-200, 200)) / 4
    wps = [[lo, la]]
    for _ in range(n - 1):
        ln = 0.0 if rng.random() < 0.12 else float(rng.integers(1, 80)) / 4
        dr = int(rng.integers(0, 4))
        if dr == 0:
            lo += ln
        elif dr == 1:
            lo -= ln
        elif dr == 2:
            la += ln
        else:
            la -= ln
        wps.append([lo, la])
    return wps


def gen_queries(rng, index, exact_lattice):
    """queries for a track whose implementation-side index is known"""
    total = index[-1]
    qs = []

    def rnd_in():
        if exact_lattice:
            return float(rng.integers(0, int(total * 8) + 1)) / 8 if total > 0 else 0.0
        return float(rng.uniform(0, total))

    ds = [0.0, total] + list(index)
    for x in index:
        ds += _ulp_nbrs(x)
    ds += [rnd_in() for _ in range(6)]
    ds += [-1.0, -0.125, total + 0.125, total * 1.5 + 1.0, math.inf, math.nan, -0.0]
    for d in ds:
        qs.append({'k': 'loc', 'd': float(d)})
    for d in [0.0, total, rnd_in(), -1.0, total + 1.0] + list(index[:3]):
        qs.append({'k': 'lookup', 'd': float(d)})
    steps = []
    for _ in range(6):
        a = rnd_in()
        b = rnd_in()
        if rng.random() < 0.5 and total > 0:
            b = (b - a) if b >= a else 0.0  # stay inside
        steps.append((a, b))
    for k, x in enumerate(index):
        steps.append((x, rnd_in() / 4))  # from exactly a waypoint
        if k + 1 < len(index):
            ln = index[k + 1] - x
            steps.append((x + ln / 4, ln / 2))  # strictly inside one leg
            steps.append((x + ln / 4, ln * 3 / 4))  # ends exactly on the next waypoint
            steps.append((x + ln / 2, ln))  # crosses the next waypoint (or the end)
    steps += [(total, 0.0), (total, 1.0), (total / 2, total), (total + 2.0, 3.0), (0.0, total), (0.0, total + 0.5),
              (-1.0, 1.0), (1.0, -1.0), (0.0, 0.0), (total * 0.75, total * 8 + 16.0)]
    for a, b in steps:
        qs.append({'k': 'step', 'a': float(a), 'b': float(b)})
        qs.append({'k': 'loc', 'd': float(a) + float(b)})  # partner for step == location
    return qs


def _wrap(lon):
    return (lon + 180.0) % 360.0 - 180.0


def gen_real_track(rng, style):
    u = rng.uniform
    if style == 'global':
        return [[u(-180, 180), u(-89, 89)], [u(-180, 180), u(-89, 89)]]
    if style == 'antimeridian':
        return [[u(150, 180), u(-60, 60)], [u(-180, -150), u(-60, 60)]][:: (1 if rng.random() < 0.5 else -1)]
    if style == 'polar':
        s = 1 if rng.random() < 0.5 else -1
        return [[u(-180, 180), s * u(85, 89.999)], [u(-180, 180), s * u(80, 90)]]
    if style == 'antipodal':
        lo, la = u(-180, 180), u(-80, 80)
        return [[lo, la], [_wrap(lo + 180 + u(-1, 1) * 10 ** u(-2, 0)), -la + u(-1, 1) * 10 ** u(-2, 0)]]
    if style == 'same_lon':
        lo = u(-180, 180)
        return [[lo, u(-89, 89)], [lo, u(-89, 89)]]
    if style == 'same_lat':
        la = u(-89, 89)
        return [[u(-180, 180), la], [u(-180, 180), la]]
    if style == 'short':
        lo, la = u(-180, 180), u(-85, 85)
        return [[lo, la], [_wrap(lo + u(-1, 1) * 1e-3), la + u(-1, 1) * 1e-3]]
    if style == 'walk':
        n = int(rng.integers(3, 9))
        lo, la = u(-180, 180), u(-70, 70)
        wps = [[lo, la]]
        for _ in range(n - 1):
            if rng.random() < 0.1:
                wps.append(list(wps[-1]))  # repeated waypoint
                continue
            lo = _wrap(lo + u(-8, 8))
            la = min(89.0, max(-89.0, la + u(-5, 5)))
            wps.append([lo, la])
        return wps
    if style == 'multi_global':
        n = int(rng.integers(3, 6))
        return [[u(-180, 180), u(-89, 89)] for _ in range(n)]
    raise ValueError(style)


REAL_STYLES = ['global', 'antimeridian', 'polar', 'antipodal', 'same_lon', 'same_lat', 'short', 'walk', 'walk', 'multi_global']


def build_track_case(env, rng, world, style=None):
    """two-phase: build the track once to learn its index (needed to aim queries at the boundaries)"""
    ov = bool(rng.random() < 0.5)
    wps = gen_manhattan_track(rng) if world == 'manhattan' else gen_real_track(rng, style)
    probe = {'kind': 'track', 'world': world, 'wps': wps, 'overstep': ov, 'queries': []}
    obs, _ = run_track_impl(env, probe)
    if 'index' in obs and all(math.isfinite(x) for x in obs['index']) and len(obs['index']) == len(wps):
        index = obs['index']
    else:  # implementation broken: aim with the reference lengths instead
        if world == 'manhattan':
            legs = [abs(b[0] - a[0]) * SX + abs(b[1] - a[1]) * SY for a, b in zip(wps[:-1], wps[1:])]
        else:
            legs = [env.fresh.inv(a[0], a[1], b[0], b[1])[2] for a, b in zip(wps[:-1], wps[1:])]
        index = [0.0]
        for x in legs:
            index.append(index[-1] + x)
    probe['queries'] = gen_queries(rng, index, world == 'manhattan')
    if style:
        probe['style'] = style
    return probe


# --------------------------------------------------------------------------- evaluation of a batch of cases
def evaluate(ctx, env, cases, register=True):
    """runs implementation + model + comparison + clauses for a list of cases; returns #problems"""
    before = len(ctx.violations) + len(ctx.divergences)
    ops, metas = [], []
    for case in cases:
        if case['kind'] == 'track':
            obs, geod = run_track_impl(env, case)
            metas.append((case, obs))
            ops.append(track_model_op(case, geod))
        else:
            obs, geod = run_gc_impl(env, case)
            metas.append((case, obs))
            if 'error' in obs:
                ops.append({'op': 'ping'})
            else:
                ops.append(gc_model_op(case, obs, geod))
    outs = ctx.driver.outs(ops)
    for (case, obs), mout in zip(metas, outs):
        if case['kind'] == 'track':
            compare_track(ctx, case, obs, mout)
            track_clauses(ctx, env, case, obs)
            if register:
                for q, r in zip(case['queries'], obs.get('results', [])):
                    key = (case['world'], json.dumps(case['wps']), case['overstep'], json.dumps(q, default=str))
                    br = 'refused' if 'err' in r else ('lookup' if 'pos' in r else q['k'] + ':ok')
                    ctx.count(f"{case['world']}:{br}")
                    nontrivial = len(case['wps']) > 2 or ('ok' in r and q['k'] == 'step') or ('ok' in r and 0 < q.get('d', 0) < obs.get('total', 0))
                    ctx.case(key, nontrivial=nontrivial,
                             sample={'world': case['world'], 'wps': case['wps'][:3], 'q': str(q), 'impl': str(r)})
                ctx.count(f"tracks:{case['world']}:{case.get('style', 'lattice')}")
        else:
            gc_check(ctx, env, case, obs, mout)
            if register:
                ctx.count(f"missions:{case['world']}")
                ctx.case(('gc', case['world'], json.dumps(case['o']), json.dumps(case['d'])), nontrivial=True,
                         sample={'mission': [case['o'], case['d']], 'gc_distance': obs.get('gc')})
    return len(ctx.violations) + len(ctx.divergences) - before


def norm360_correspondence(ctx, rng, n):
    """Python float % 360.0 vs Geo.pymod360 (exact on (-360, 360), 1e-12 beyond), incl. the (-eps) % 360 == 360.0 fact"""
    xs = [0.0, -0.0, 360.0, -360.0, 180.0, -180.0, 90.0, -90.0, 270.0, 359.99999999999994, -1e-20, -5e-324, 1e-300,
          -359.99999999999994, 720.0, -720.0, 725.5, -725.5, 1e6 + 0.5, -1e6 - 0.5, math.nextafter(360.0, 0), math.nextafter(-360.0, 0)]
    xs += [float(x) for x in rng.uniform(-360, 360, n)]
    xs += [float(x) for x in rng.uniform(-1e-12, 0, 20)]
    xs += [float(x) for x in rng.uniform(-5000, 5000, n // 4)]
    (out,) = ctx.driver.outs([{'op': 'geo.mod360', 'xs': [f2u(x) for x in xs]}])
    for x, mu in zip(xs, out):
        py = x % 360.0
        m = u2f(mu)
        ok = (py == m) if abs(x) < 360.0 else close(py, m, 1e-12, 1e-9)
        if not ok:
            ctx.diverge('azimuth normalisation x % 360.0', {'kind': 'mod360', 'x': x}, f'python {py!r} model {m!r}')
        if not (0.0 <= py <= 360.0):
            ctx.clause_fail('azimuth_in_range', {'kind': 'mod360', 'x': x}, detail=f'{x!r} % 360.0 = {py!r}')
        ctx.count('mod360')
    # the dataclass really applies it
    P = None
    try:
        aeic = __import__('AEIC.trajectories.ground_track', fromlist=['GroundTrack'])
        P = aeic.GroundTrack.Point
    except Exception:  # noqa: BLE001
        pass
    if P is not None:
        from AEIC.types import Location

        for x in xs[:40]:
            az = P(Location(0.0, 0.0), x).azimuth
            if not _same(az, x % 360.0) or not (0.0 <= az <= 360.0):
                ctx.clause_fail('azimuth_in_range', {'kind': 'point_azimuth', 'x': x}, detail=f'Point(azimuth={x!r}).azimuth = {az!r}')


# --------------------------------------------------------------------------- corpus / replay
def _load_case(path):
    data = json.loads(Path(path).read_text())
    if 'first' in data and isinstance(data['first'], dict) and 'case' in data['first']:
        return data['first']['case'], data['first'].get('clause')
    if 'divergences' in data and data['divergences']:
        return data['divergences'][0]['case'], None
    return data.get('case', data), data.get('clause')


def _fix_floats(case):
    """JSON has no inf/nan literals in strict mode; python's json round-trips them, but str-dumped values need repair"""
    def conv(x):
        if isinstance(x, str) and x in ('inf', '-inf', 'nan'):
            return float(x)
        return x

    if case.get('kind') == 'track':
        for q in case.get('queries', []):
            for k in ('d', 'a', 'b'):
                if k in q:
                    q[k] = float(conv(q[k]))
    return case


def replay(ctx, path):
    env = Env()
    case, clause = _load_case(path)
    case = _fix_floats(case)
    if case.get('kind') in ('mod360', 'point_azimuth'):
        x = float(case['x'])
        P = env.gtmod.GroundTrack.Point
        az = P(env.Location(0.0, 0.0), x).azimuth
        (out,) = ctx.driver.outs([{'op': 'geo.mod360', 'xs': [f2u(x)]}])
        ok = (0.0 <= az <= 360.0) and (az == u2f(out[0]) if abs(x) < 360 else close(az, u2f(out[0]), 1e-12, 1e-9))
        print(f"[{PID}] replay: Point(azimuth={x!r}).azimuth = {az!r}; model {u2f(out[0])!r}: " + ('ok' if ok else 'azimuth_in_range FAILS on the implementation'))
        return 0 if ok else 1
    if case.get('kind') not in ('track', 'gc'):
        print(f'[{PID}] replay: nothing executable in {path}')
        return 0
    n = evaluate(ctx, env, [case], register=False)
    for v in ctx.violations:
        print(f"[{PID}] replay: clause {v['clause']} FAILS on the implementation: {v['detail']}")
    for d in ctx.divergences:
        print(f"[{PID}] replay: implementation differs from the model at {d['correspondence']}: {d['detail']}")
    if n == 0:
        print(f'[{PID}] replay: implementation satisfies all clauses and agrees with the model on {path}')
    return 1 if n else 0


def run_corpus(ctx, env):
    d = CORPUS_DIR / PID
    if not d.is_dir():
        return
    for p in sorted(d.glob('*.json')):
        case, _ = _load_case(p)
        evaluate(ctx, env, [_fix_floats(case)], register=True)
        ctx.count('corpus')


# --------------------------------------------------------------------------- widened search after a divergence
def widened_search(ctx, env):
    """model and implementation disagree but no clause failed yet: look harder for a concrete failing input around the
    diverging cases (denser queries on the same tracks, both overstep settings; both directions and nearby positions for missions)"""
    if ctx.violations or not ctx.divergences:
        return
    from harness.common import make_rng

    rng = make_rng(PID, ctx.seed, 'widened')
    seen, extra = set(), []
    for dv in ctx.divergences[:400]:
        c = dv['case']
        key = json.dumps([c.get('wps'), c.get('o'), c.get('d')], default=str)
        if key in seen or c.get('kind') not in ('track', 'gc'):
            continue
        seen.add(key)
        if len(seen) > 12:
            break
        if c['kind'] == 'track':
            for ov in (False, True):
                probe = {'kind': 'track', 'world': c['world'], 'wps': c['wps'], 'overstep': ov, 'queries': []}
                obs, _ = run_track_impl(env, probe)
                index = obs.get('index') or [0.0, 1.0]
                for _ in range(3):
                    extra.append(dict(probe, queries=gen_queries(rng, index, c['world'] == 'manhattan')))
        else:
            extra.append(c)
            extra.append(dict(c, o=c['d'], d=c['o']))
    nd = len(ctx.divergences)
    for i in range(0, len(extra), 100):
        evaluate(ctx, env, extra[i:i + 100], register=False)
        if ctx.violations:
            break
    ctx.extra['widened_search'] = {'cases': len(extra), 'found_failing_input': bool(ctx.violations)}
    del ctx.divergences[nd + 50:]


# --------------------------------------------------------------------------- main
def main(ctx):
    ctx.proofs()
    env = Env()
    rng = ctx.rng
    run_corpus(ctx, env)
    norm360_correspondence(ctx, rng, ctx.scale(400, 20000))

    n_man = ctx.scale(400, 12000)
    n_real = ctx.scale(400, 12000)
    n_gc = ctx.scale(500, 15000)

    cases = [build_track_case(env, rng, 'manhattan') for _ in range(n_man)]
    for i in range(n_real):
        cases.append(build_track_case(env, rng, 'table', REAL_STYLES[i % len(REAL_STYLES)]))
    # two-point tracks are also built through `GroundTrack.great_circle`, and every such track is followed by its twin: the same
    # end points and queries with the OTHER overstep setting, in the same process (tracks must not share anything)
    twins = []
    for c in cases:
        if len(c['wps']) == 2 and rng.random() < 0.6:
            c['via_great_circle'] = True
            twins.append((c, dict(c, overstep=not c['overstep'])))
    for c, tw in twins:
        cases.insert(cases.index(c) + 1, tw)
    # (the generators rarely give two-point tracks: add some, with queries aimed past the end)
    for i in range(ctx.scale(40, 600)):
        world = 'manhattan' if i % 2 else 'table'
        for _ in range(20):
            c = build_track_case(env, rng, world, None if world == 'manhattan' else REAL_STYLES[i % len(REAL_STYLES)])
            c['wps'] = [c['wps'][0], c['wps'][1]]          # (one leg: axis-aligned in the Manhattan world)
            if c['wps'][0] != c['wps'][1]:
                break
        probe = dict(c, queries=[])
        obs, _ = run_track_impl(env, probe)
        if 'index' not in obs or not all(math.isfinite(x) for x in obs['index']):
            continue
        c['queries'] = gen_queries(rng, obs['index'], world == 'manhattan')
        c['via_great_circle'] = True
        cases.append(c)
        cases.append(dict(c, overstep=not c['overstep']))
    ctx.extra['two_point_tracks_via_great_circle'] = sum(1 for c in cases if c.get('via_great_circle'))
    # missions: real airports (both orders are evaluated inside), synthetic positions in both worlds
    for _ in range(n_gc):
        r = rng.random()
        if r < 0.3:
            a, b = rng.choice(len(env.airports), 2, replace=False)
            cases.append({'kind': 'gc', 'world': 'table', 'o': env.airports[int(a)], 'd': env.airports[int(b)]})
        elif r < 0.65:
            w = gen_real_track(rng, ['global', 'antimeridian', 'polar', 'antipodal', 'same_lon', 'same_lat', 'short'][int(rng.integers(0, 7))])
            cases.append({'kind': 'gc', 'world': 'table', 'o': w[0], 'd': w[1]})
        else:
            w = gen_manhattan_track(rng)
            if rng.random() < 0.5:  # not axis aligned as well
                w[-1] = [float(rng.integers(-200, 200)) / 4, float(rng.integers(-200, 200)) / 4]
            cases.append({'kind': 'gc', 'world': 'manhattan', 'o': w[0], 'd': w[-1]})
    B = 400
    for i in range(0, len(cases), B):
        evaluate(ctx, env, cases[i:i + B])
        if len(ctx.violations) > 50:
            break
    widened_search(ctx, env)
    return ctx.finish(RULE, TRUSTED, ASSUME)
