"""C01 — the emissions inventory balances.

Correspondence: real `compute_emissions` (duck-typed performance model + synthetic trajectory, both climb/descent modes)
against the Lean model `Aeic.Emissions.assemble` executed by the compiled driver on bit-identical inputs.
Clauses: the property's balance statements re-evaluated on the implementation's returned `Emissions` with an
independent `math.fsum` re-summation.
"""
from __future__ import annotations

import contextlib
import io
import json
import math
from pathlib import Path

import numpy as np

from harness.common import CORPUS_DIR, REPO, aeic_setup, close, f2u, fs2u, u2f, u2fs

PID = 'C01'
RULE = ('one case = (emissions option set from the supported space, fuel, LTO/EDB/APU data, aircraft class, trajectory '
        'of length 1-400 with zero-burn segments, climb/descent window class); each case is evaluated in BOTH '
        'climb_descent modes (2 inventories). Distinctness key = sha of the case JSON; non-trivial = at least one of: '
        'lto mode with a proper window, zero-burn segment inside the window, APU present, option set different from default.')
TRUSTED = ['Lean 4.33 kernel', 'axioms propext/Classical.choice/Quot.sound', 'Mathlib v4.33',
           'correspondence harness harness/c01.py + compiled aeic_driver (Lean Float = IEEE double)',
           'EI kernels (BFFM2 NOx total, HC/CO, PMvol, PMnvol MEEM/SCOPE11) enter the model as arbitrary arrays taken from '
           'the implementation (they are property C12)',
           'numpy pairwise summation (np.sum) read as exact real summation']
ASSUME = ['IEEE rounding is not modelled: theorems are over the reals; impl vs Float model compared with rtol 1e-9 '
          '(sums: atol 1e-9 * sum of |terms|)',
          'supported option space only: pmvol_method in {fuel_flow, none}, pmnvol_method in {meem, scope11, none}, not '
          '(sox off and APU running), lifecycle only with a fuel that has lifecycle_CO2 (the rest raises: property C11)',
          'non-negativity clause is evaluated for inputs satisfying the hypotheses of C01.amounts_nonneg '
          '(fuel mass non-increasing, EIs >= 0, APU carbon balance >= 0)']

SPECIES = ['CO2', 'H2O', 'HC', 'CO', 'NOx', 'NO', 'NO2', 'HONO', 'PMnvol', 'PMnvolGMD', 'PMvol', 'OCic', 'SOx', 'SO2',
           'SO4', 'PMnvolN']
MODES = ['IDLE', 'APPROACH', 'CLIMB', 'TAKEOFF']
RTOL = 1e-9

DEFAULT_CFG = dict(co2_enabled=True, h2o_enabled=True, sox_enabled=True, nox_method='bffm2', hc_method='bffm2',
                   co_method='bffm2', pmvol_method='fuel_flow', pmnvol_method='meem', apu_enabled=True,
                   gse_enabled=True, lifecycle_enabled=True)

FUELS = {
    'jetA': dict(name='Jet-A', energy_MJ_per_kg=43.2, EI_H2O=1233.3865, EI_CO2=3155.6, non_volatile_carbon_fraction=0.95,
                 lifecycle_CO2=89.0, fuel_sulfur_content_nom=600.0, sulfate_yield_nom=0.02),
    'SAF': dict(name='SAF', energy_MJ_per_kg=44.1, EI_H2O=1356.72515, EI_CO2=3155.6, non_volatile_carbon_fraction=0.95,
                lifecycle_CO2=None, fuel_sulfur_content_nom=0.0, sulfate_yield_nom=0.0),
}


# ------------------------------------------------------------------------------------------------ generators
def _r(rng, lo, hi):
    return float(rng.uniform(lo, hi))


def gen_cfg(rng, default_bias=0.15):
    if rng.random() < default_bias:
        return dict(DEFAULT_CFG)
    pick = lambda xs: xs[int(rng.integers(len(xs)))]  # noqa: E731
    return dict(
        co2_enabled=bool(rng.random() < 0.8), h2o_enabled=bool(rng.random() < 0.8), sox_enabled=bool(rng.random() < 0.75),
        nox_method=pick(['bffm2', 'bffm2', 'p3t3', 'none']), hc_method=pick(['bffm2', 'bffm2', 'p3t3', 'none']),
        co_method=pick(['bffm2', 'bffm2', 'p3t3', 'none']), pmvol_method=pick(['fuel_flow', 'fuel_flow', 'none']),
        pmnvol_method=pick(['meem', 'scope11', 'none']), apu_enabled=bool(rng.random() < 0.7),
        gse_enabled=bool(rng.random() < 0.7), lifecycle_enabled=bool(rng.random() < 0.6))


def _fuel_pool():
    # a dozen fixed fuels that come back all through a run under changing configurations: equal-valued fuel objects are equal
    # (and hash equal), so anything the library remembers per fuel is exercised across configurations, with a first use that has
    # some constant species switched off for most of them
    r = np.random.Generator(np.random.PCG64(20240917))
    return [dict(name=f'pool{i}', energy_MJ_per_kg=float(r.uniform(40, 46)), EI_H2O=float(r.uniform(1100, 1400)),
                 EI_CO2=float(r.uniform(2900, 3250)), non_volatile_carbon_fraction=0.95,
                 lifecycle_CO2=float(r.uniform(10, 110)), fuel_sulfur_content_nom=float(r.uniform(1, 3000)),
                 sulfate_yield_nom=float(r.uniform(0.001, 0.1))) for i in range(12)]


FUEL_POOL = _fuel_pool()


def gen_fuel(rng):
    u = rng.random()
    if u < 0.2:
        return dict(FUELS['jetA'])
    if u < 0.3:
        return dict(FUELS['SAF'])
    if u < 0.55:
        return dict(FUEL_POOL[int(rng.integers(len(FUEL_POOL)))])
    return dict(name='gen', energy_MJ_per_kg=_r(rng, 40, 46), EI_H2O=_r(rng, 1100, 1400), EI_CO2=_r(rng, 2900, 3250),
                non_volatile_carbon_fraction=0.95,
                lifecycle_CO2=(None if rng.random() < 0.25 else _r(rng, 10, 110)),
                fuel_sulfur_content_nom=(0.0 if rng.random() < 0.15 else _r(rng, 1, 3000)),
                sulfate_yield_nom=(0.0 if rng.random() < 0.1 else _r(rng, 0.001, 0.1)))


def gen_pm(rng, idx, apus):
    idle = _r(rng, 0.05, 0.4)
    app = idle * _r(rng, 1.5, 3.5)
    clb = app * _r(rng, 1.8, 3.5)
    to = clb * _r(rng, 1.05, 1.4)
    nox = sorted(_r(rng, 2, 55) for _ in range(4))
    hc = sorted((_r(rng, 0.01, 12) for _ in range(4)), reverse=True)
    co = sorted((_r(rng, 0.05, 60) for _ in range(4)), reverse=True)
    u = rng.random()
    if u < 0.2:
        apu = None
    elif u < 0.3:
        apu = dict(name='unknown', defra='0000', fuel_kg_per_s=0.0, NOx_g_per_kg=0.0, CO_g_per_kg=0.0, HC_g_per_kg=0.0,
                   PM10_g_per_kg=0.0)
    elif u < 0.7 and apus:
        apu = dict(apus[int(rng.integers(len(apus)))])
    else:
        apu = dict(name='gen', defra='0', fuel_kg_per_s=_r(rng, 0.005, 0.1), NOx_g_per_kg=_r(rng, 0, 12),
                   CO_g_per_kg=_r(rng, 0, 40), HC_g_per_kg=_r(rng, 0, 8),
                   PM10_g_per_kg=(0.0 if rng.random() < 0.2 else _r(rng, 0, 1.0)))
    mt = rng.random()
    edb = dict(engine=f'gen-engine-{idx}', uid=f'G{idx}-{int(rng.integers(1 << 40))}',
               engine_type=('MTF' if rng.random() < 0.3 else 'TF'), BP_Ratio=_r(rng, 0.5, 11), rated_thrust=_r(rng, 30, 500),
               fuel_flow=[idle, app, clb, to], CO_EI_matrix=co, HC_EI_matrix=hc, EI_NOx_matrix=nox,
               SN_matrix=[_r(rng, 0.5, 30) for _ in range(4)],
               nvPM_mass_matrix=([-1.0] * 4 if rng.random() < 0.25 else [_r(rng, 0.5, 120) for _ in range(4)]),
               nvPM_num_matrix=([-1.0] * 4 if rng.random() < 0.25 else [_r(rng, 1e13, 9e14) for _ in range(4)]),
               PR=[_r(rng, 12, 48)] * 4, EImass_max=_r(rng, 1, 150),
               EImass_max_thrust=(0.575 if mt < 0.4 else 0.925 if mt < 0.8 else -1.0),
               EInum_max=_r(rng, 1e13, 1e15), EInum_max_thrust=(0.575 if mt < 0.4 else 0.925 if mt < 0.8 else -1.0))
    return dict(lto=dict(fuel_flow=[idle, app, clb, to], EI_NOx=nox, EI_HC=hc, EI_CO=co), edb=edb, apu=apu,
                aircraft_class=['wide', 'narrow', 'small', 'freight'][int(rng.integers(4))],
                number_of_engines=[2, 2, 3, 4][int(rng.integers(4))])


def gen_traj(rng, ff_scale):
    u = rng.random()
    n = int(rng.integers(1, 9)) if u < 0.3 else int(rng.integers(9, 61)) if u < 0.85 else int(rng.integers(61, 401))
    m0 = _r(rng, 1500, 80000)
    burns = rng.uniform(0.0, m0 / (2.5 * n), size=max(n - 1, 0))
    zero = rng.random(size=burns.shape) < (0.15 if rng.random() < 0.7 else 0.6)
    burns = np.where(zero, 0.0, burns)
    fm = [m0]
    for b in burns:
        fm.append(fm[-1] - float(b))
    top = _r(rng, 5000, 13000)
    k1 = max(1, n // 3)
    alt = np.concatenate([np.linspace(0, top, k1, endpoint=False), np.full(max(n - 2 * k1, 0), top),
                          np.linspace(top, 0, k1)])[:n]
    if len(alt) < n:
        alt = np.concatenate([alt, np.zeros(n - len(alt))])
    alt = np.clip(alt + rng.uniform(-50, 50, size=n) * (rng.random() < 0.5), 0.0, 13500.0)
    tas = rng.uniform(100, 260, size=n)
    ff = rng.uniform(0.3, 6.0, size=n) * ff_scale
    if rng.random() < 0.15:
        # engines shut down at some points (the last one at the gate, or anywhere): zero fuel flow while the segment that ends
        # there still burned fuel — the balances must hold there too
        off = rng.random(size=n) < 0.2
        off[-1] = True
        ff = np.where(off, 0.0, ff)
    # climb/descent window class
    w = rng.random()
    if w < 0.12:
        k = 0
    elif w < 0.24:
        k = 1
    elif w < 0.36:
        k = max(n - 1, 0)
    elif w < 0.48:
        k = n
    elif w < 0.58:
        k = int(rng.integers(n + 1, 2 * n + 1))  # start > stop: empty window
    else:
        k = int(rng.integers(0, n + 1))
    nc = int(rng.integers(max(0, k - n), min(k, n) + 1))
    nd = k - nc
    return dict(fuel_mass=fm, fuel_flow=[float(x) for x in ff], altitude=[float(x) for x in alt],
                true_airspeed=[float(x) for x in tas], n_climb=nc, n_descent=nd)


def supported(case) -> bool:
    c = case['cfg']
    apu = case['pm']['apu']
    if c['pmvol_method'] == 'foa3' or c['pmnvol_method'] == 'foa3':
        return False
    if c['apu_enabled'] and apu is not None and apu['fuel_kg_per_s'] != 0.0 and not c['sox_enabled']:
        return False
    if c['co2_enabled'] and c['lifecycle_enabled'] and case['fuel']['lifecycle_CO2'] is None:
        return False
    return True


def gen_case(rng, idx, apus, want_supported=True):
    for _ in range(50):
        pm = gen_pm(rng, idx, apus)
        case = dict(cfg=gen_cfg(rng), fuel=gen_fuel(rng), pm=pm,
                    traj=gen_traj(rng, pm['lto']['fuel_flow'][1] * pm['number_of_engines'] / 2.0))
        # a third of the flights are the SECOND flight computed with the same performance-model / fuel / trajectory objects
        # (fleet runs reuse them); half of those hand over mutable thrust-mode values, as arithmetic on them produces
        u = rng.random()
        case['repeat'] = bool(u < 0.34)
        case['mutable_lto'] = bool(u < 0.17)
        if supported(case) == want_supported:
            return case
        if want_supported:  # repair instead of rejecting: keeps the option distribution
            c = case['cfg']
            if c['co2_enabled'] and c['lifecycle_enabled'] and case['fuel']['lifecycle_CO2'] is None:
                if rng.random() < 0.5:
                    c['lifecycle_enabled'] = False
                else:
                    case['fuel']['lifecycle_CO2'] = _r(rng, 10, 110)
            if not supported(case):
                c['sox_enabled'] = True
            return case
    raise RuntimeError('generator could not produce a case')


# ------------------------------------------------------------------------------------------------ implementation side
class _PM:
    pass


class _Traj:
    def __len__(self):
        return self._n


def build(case):
    from AEIC.performance.apu import APU
    from AEIC.performance.edb import EDBEntry
    from AEIC.performance.types import LTOPerformance, ThrustModeValues
    from AEIC.types import AircraftClass, Fuel

    p = case['pm']
    pm = _PM()
    if case.get('mutable_lto'):
        tmv = lambda xs: ThrustModeValues(*[float(x) for x in xs]).copy(mutable=True)  # noqa: E731
    else:
        tmv = lambda xs: ThrustModeValues(*[float(x) for x in xs])  # noqa: E731
    e = p['edb']
    pm.edb = EDBEntry(engine=e['engine'], uid=e['uid'], engine_type=e['engine_type'], BP_Ratio=e['BP_Ratio'],
                      rated_thrust=e['rated_thrust'], fuel_flow=tmv(e['fuel_flow']), CO_EI_matrix=tmv(e['CO_EI_matrix']),
                      HC_EI_matrix=tmv(e['HC_EI_matrix']), EI_NOx_matrix=tmv(e['EI_NOx_matrix']),
                      SN_matrix=tmv(e['SN_matrix']), nvPM_mass_matrix=tmv(e['nvPM_mass_matrix']),
                      nvPM_num_matrix=tmv(e['nvPM_num_matrix']), PR=tmv(e['PR']), EImass_max=e['EImass_max'],
                      EImass_max_thrust=e['EImass_max_thrust'], EInum_max=e['EInum_max'],
                      EInum_max_thrust=e['EInum_max_thrust'])
    lt = p['lto']
    pm.lto = LTOPerformance(source='gen', ICAO_UID=e['uid'], rated_thrust=e['rated_thrust'] * 1000.0,
                            thrust_pct=ThrustModeValues(7.0, 30.0, 85.0, 100.0), fuel_flow=tmv(lt['fuel_flow']),
                            EI_NOx=tmv(lt['EI_NOx']), EI_HC=tmv(lt['EI_HC']), EI_CO=tmv(lt['EI_CO']))
    pm.apu = None if p['apu'] is None else APU(**p['apu'])
    pm.aircraft_class = AircraftClass(p['aircraft_class'])
    pm.number_of_engines = p['number_of_engines']
    t = case['traj']
    tr = _Traj()
    tr._n = len(t['fuel_mass'])
    tr.n_climb = t['n_climb']
    tr.n_descent = t['n_descent']
    tr.n_cruise = tr._n - tr.n_climb - tr.n_descent
    for k in ('fuel_mass', 'fuel_flow', 'altitude', 'true_airspeed'):
        setattr(tr, k, np.array(t[k], dtype=float))
    fuel = Fuel.model_validate(case['fuel'])
    return pm, fuel, tr


def canon(E):
    from AEIC.performance.types import ThrustMode

    sv = lambda m, f: {s.name: f(v) for s, v in m.items()}  # noqa: E731
    arr = lambda v: [float(x) for x in np.asarray(v, dtype=float)]  # noqa: E731
    tm = lambda v: [float(v[m]) for m in ThrustMode]  # noqa: E731
    return dict(traj_em=sv(E.trajectory_emissions, arr), traj_idx=sv(E.trajectory_indices, arr),
                lto_em=sv(E.lto_emissions, tm), lto_idx=sv(E.lto_indices, tm), apu_em=sv(E.apu_emissions, float),
                apu_idx=sv(E.apu_indices, float), gse_em=sv(E.gse_emissions, float), total=sv(E.total_emissions, float),
                burn=arr(E.fuel_burn_per_segment), total_fuel=float(E.total_fuel_burn),
                lifecycle=float(E.lifecycle_co2 if E.lifecycle_co2 is not None else 0.0))


def run_impl(case, mode: str):
    """-> canonical inventory dict, or {'err': ExceptionTypeName}"""
    from AEIC.config import Config
    from AEIC.emissions import compute_emissions

    cfg = dict(case['cfg'], climb_descent_mode=mode, fuel='conventional_jetA')
    try:
        Config.reset()
    except Exception:
        pass
    try:
        Config.load(emissions=cfg, data_path_overrides=[REPO / 'tests' / 'data'])
        pm, fuel, tr = build(case)
        try:
            with np.errstate(all='ignore'), contextlib.redirect_stdout(io.StringIO()):
                if case.get('repeat'):
                    compute_emissions(pm, fuel, tr)   # the inventory examined is the one of the second flight
                return canon(compute_emissions(pm, fuel, tr))
        except Exception as x:  # classification only; messages never compared
            return {'err': type(x).__name__, 'msg': str(x)[:200]}
    finally:
        try:
            Config.reset()
        except Exception:
            pass


def sls_flow(case):
    """SLS-equivalent fuel flow exactly as get_trajectory_emissions feeds it to BFFM2 (input of the speciation model)."""
    from AEIC.emissions.types import AtmosphericState
    from AEIC.emissions.utils import get_SLS_equivalent_fuel_flow

    t = case['traj']
    alt = np.array(t['altitude'], dtype=float)
    st = AtmosphericState(alt, np.array(t['true_airspeed'], dtype=float))
    with np.errstate(all='ignore'):
        w = get_SLS_equivalent_fuel_flow(fuel_flow=np.array(t['fuel_flow'], dtype=float), Pamb=st.pressure,
                                         Tamb=st.temperature, mach_number=st.mach, n_eng=case['pm']['number_of_engines'])
    return [float(x) for x in w]


# ------------------------------------------------------------------------------------------------ model side
def model_op(case, mode, ei_traj, ei_lto, sls):
    c = case['cfg']
    f = case['fuel']
    p = case['pm']
    t = case['traj']
    g = lambda d, k: fs2u(d[k]) if k in d else None  # noqa: E731
    op = {'op': 'c01.assemble',
          'cfg': {'lto': mode == 'lto', 'co2': c['co2_enabled'], 'h2o': c['h2o_enabled'], 'sox': c['sox_enabled'],
                  'nox': c['nox_method'], 'hc': c['hc_method'] != 'none', 'co': c['co_method'] != 'none',
                  'pmvol': c['pmvol_method'] != 'none', 'pmnvol': c['pmnvol_method'], 'apu': c['apu_enabled'],
                  'gse': c['gse_enabled'], 'lifecycle': c['lifecycle_enabled']},
          'fuel': {'energy': f2u(f['energy_MJ_per_kg']), 'h2o': f2u(f['EI_H2O']), 'co2': f2u(f['EI_CO2']),
                   'lifecycle': None if f['lifecycle_CO2'] is None else f2u(f['lifecycle_CO2']),
                   'sulfur': f2u(f['fuel_sulfur_content_nom']), 'yield': f2u(f['sulfate_yield_nom'])},
          'traj': {'fm': fs2u(t['fuel_mass']), 'nclimb': t['n_climb'], 'ndescent': t['n_descent'],
                   'nox': g(ei_traj, 'NOx'), 'sls': None if sls is None else fs2u(sls), 'hc': g(ei_traj, 'HC'),
                   'co': g(ei_traj, 'CO'), 'pmvol': g(ei_traj, 'PMvol'), 'ocic': g(ei_traj, 'OCic'),
                   'pmnvol': g(ei_traj, 'PMnvol'), 'gmd': g(ei_traj, 'PMnvolGMD'), 'pmnvoln': g(ei_traj, 'PMnvolN')},
          'lto': {'ff': fs2u(p['lto']['fuel_flow']), 'nox': fs2u(p['lto']['EI_NOx']), 'hc': fs2u(p['lto']['EI_HC']),
                  'co': fs2u(p['lto']['EI_CO']), 'pmvol': g(ei_lto, 'PMvol'), 'ocic': g(ei_lto, 'OCic'),
                  'pmnvol': g(ei_lto, 'PMnvol')},
          'apu': None if p['apu'] is None else {'fuel': f2u(p['apu']['fuel_kg_per_s']), 'pm10': f2u(p['apu']['PM10_g_per_kg']),
                                               'nox': f2u(p['apu']['NOx_g_per_kg']), 'hc': f2u(p['apu']['HC_g_per_kg']),
                                               'co': f2u(p['apu']['CO_g_per_kg'])},
          'cls': p['aircraft_class']}
    op['traj'] = {k: v for k, v in op['traj'].items() if v is not None}
    op['lto'] = {k: v for k, v in op['lto'].items() if v is not None}
    return op


def decode_model(out):
    if not out.get('ok'):
        return {'err': out.get('err')}
    d = {}
    for k in ('traj_em', 'traj_idx', 'lto_em', 'lto_idx'):
        d[k] = {s: u2fs(v) for s, v in out[k].items()}
    for k in ('apu_em', 'apu_idx', 'gse_em', 'total'):
        d[k] = {s: u2f(v) for s, v in out[k].items()}
    d['burn'] = u2fs(out['burn'])
    for k in ('total_fuel', 'lifecycle', 'traj_fuel'):
        d[k] = u2f(out[k])
    d['lto_fuel'] = u2fs(out['lto_fuel'])
    d['apu_fuel'] = None if out['apu_fuel'] is None else u2f(out['apu_fuel'])
    d['gse_fuel'] = None if out['gse_fuel'] is None else u2f(out['gse_fuel'])
    return d


def _scale(xs):
    return math.fsum(abs(float(x)) for x in xs if math.isfinite(float(x)))


def compare(impl, model):
    """-> list of difference strings (empty = agree)."""
    if 'err' in impl or 'err' in model:
        a, b = impl.get('err'), model.get('err')
        return [] if a == b else [f'outcome: impl={a or "ok"} model={b or "ok"}']
    diffs = []
    for k in ('traj_em', 'traj_idx', 'lto_em', 'lto_idx', 'apu_em', 'apu_idx', 'gse_em', 'total'):
        ka, kb = sorted(impl[k]), sorted(model[k])
        if ka != kb:
            diffs.append(f'{k}: key sets differ impl-only={sorted(set(ka) - set(kb))} model-only={sorted(set(kb) - set(ka))}')
            continue
        for s in ka:
            a, b = impl[k][s], model[k][s]
            if isinstance(a, list):
                if len(a) != len(b):
                    diffs.append(f'{k}[{s}]: length {len(a)} vs {len(b)}')
                    continue
                for i, (x, y) in enumerate(zip(a, b)):
                    if not close(x, y, RTOL, 1e-300):
                        diffs.append(f'{k}[{s}][{i}]: impl={x!r} model={y!r}')
                        break
            else:
                atol = 0.0
                if k == 'total':  # a sum: error relative to the terms, not to the (possibly cancelling) result
                    atol = RTOL * (_scale(impl['traj_em'].get(s, [])) + _scale(impl['lto_em'].get(s, [])))
                if not close(a, b, RTOL, atol):
                    diffs.append(f'{k}[{s}]: impl={a!r} model={b!r}')
    burn_atol = 1e-12 * max([abs(x) for x in impl['burn']] + [1.0])
    if len(impl['burn']) != len(model['burn']) or any(not close(x, y, RTOL, burn_atol)
                                                      for x, y in zip(impl['burn'], model['burn'])):
        diffs.append('fuel_burn_per_segment differs')
    if not close(impl['total_fuel'], model['total_fuel'], RTOL, RTOL * _scale(impl['burn'])):
        diffs.append(f'total_fuel_burn: impl={impl["total_fuel"]!r} model={model["total_fuel"]!r}')
    if not close(impl['lifecycle'], model['lifecycle'], RTOL):
        diffs.append(f'lifecycle_co2: impl={impl["lifecycle"]!r} model={model["lifecycle"]!r}')
    return diffs


# ------------------------------------------------------------------------------------------------ clauses on the impl output
def _tims():
    try:
        from AEIC.emissions.lto import _LTO_TIMS
        from AEIC.performance.types import ThrustMode

        return [float(_LTO_TIMS[m]) for m in ThrustMode]
    except Exception:
        return [1560.0, 240.0, 132.0, 42.0]  # ICAO standard LTO cycle


_GSE_CO2 = {'wide': 58e3, 'narrow': 18e3, 'small': 10e3, 'freight': 58e3}


def clauses(case, mode, E, check_sign=True):
    """The statements of C01 evaluated on the returned inventory. -> list of (clause, detail)."""
    bad = []
    t = case['traj']
    f = case['fuel']
    c = case['cfg']
    p = case['pm']
    fm = t['fuel_mass']
    n = len(fm)

    def eq(a, b, scale=0.0):
        return close(a, b, RTOL, RTOL * scale + 1e-300)

    # --- fuel burn per segment is the fuel-mass difference
    burn = E['burn']
    exp_burn = [0.0] + [fm[i - 1] - fm[i] for i in range(1, n)]
    fm_atol = 1e-12 * max(abs(x) for x in fm)  # a difference of masses: accuracy relative to the masses
    if len(burn) != n or any(not close(a, b, RTOL, fm_atol) for a, b in zip(burn, exp_burn)):
        bad.append(('burn_is_fuel_mass_difference', f'fuel_burn_per_segment != fm[:-1]-fm[1:] (n={n})'))
        return bad
    # --- window: which points the trajectory component accounts for
    if mode == 'lto':
        lo, hi = min(t['n_climb'], n), max(n - t['n_descent'], 0)
        if t['n_descent'] > n:  # outside the generated space (negative stop wraps in Python): not judged
            lo, hi = 0, 0
    else:
        lo, hi = 0, n
    inside = [lo <= i < hi for i in range(n)]
    traj_fuel = math.fsum(b for b, w in zip(burn, inside) if w)

    # --- every per-segment amount = index * burn; nothing outside the window; every point inside is counted
    if sorted(E['traj_em']) != sorted(E['traj_idx']):
        bad.append(('segment_eq_index_times_burn', 'trajectory emissions/indices key sets differ'))
    for s, em in E['traj_em'].items():
        idx = E['traj_idx'].get(s)
        if idx is None:
            continue
        if len(em) != n or len(idx) != n:
            bad.append(('segment_eq_index_times_burn', f'{s}: array length {len(em)}/{len(idx)} != {n}'))
            continue
        for i in range(n):
            if not eq(em[i], idx[i] * burn[i]):
                bad.append(('segment_eq_index_times_burn', f'{s}[{i}]: amount {em[i]!r} != index {idx[i]!r} * burn {burn[i]!r}'))
                break
            if not inside[i] and (em[i] != 0.0 or idx[i] != 0.0):
                bad.append(('outside_window_zero', f'{s}[{i}]: amount {em[i]!r} / index {idx[i]!r} outside window [{lo},{hi})'))
                break
    # --- LTO component fuel (times in mode x fuel flow, approach/climb only in lto mode)
    tims = _tims()
    lto_fuel = [tm * ff for tm, ff in zip(tims, p['lto']['fuel_flow'])]
    if mode != 'lto':
        lto_fuel[1] = 0.0
        lto_fuel[2] = 0.0
    for s, em in E['lto_em'].items():
        idx = E['lto_idx'].get(s)
        if idx is None:
            bad.append(('lto_amount_eq_index_times_fuel', f'{s}: LTO amount without index'))
            continue
        for m in range(4):
            if not eq(em[m], idx[m] * lto_fuel[m]):
                bad.append(('lto_amount_eq_index_times_fuel', f'{s}[{MODES[m]}]: {em[m]!r} != {idx[m]!r} * {lto_fuel[m]!r}'))
                break
            if mode != 'lto' and m in (1, 2) and (em[m] != 0.0 or idx[m] != 0.0):
                bad.append(('traj_mode_fuel_counted_once', f'{s}[{MODES[m]}]: LTO {MODES[m]} not zero in trajectory mode'))
                break
    # --- APU / GSE component fuel, counted exactly when the component is in the inventory
    comp_fuel = [traj_fuel] + lto_fuel
    if E['apu_em']:
        apu_fuel = p['apu']['fuel_kg_per_s'] * 900.0 if p['apu'] is not None else float('nan')
        comp_fuel.append(apu_fuel)
        for s, em in E['apu_em'].items():
            idx = E['apu_idx'].get(s)
            if idx is None or not eq(em, idx * apu_fuel):
                bad.append(('apu_amount_eq_index_times_fuel', f'{s}: {em!r} != {idx!r} * {apu_fuel!r}'))
                break
    if (c['apu_enabled'] and p['apu'] is not None) != bool(E['apu_em']):
        bad.append(('apu_component_presence', f'apu_enabled={c["apu_enabled"]} apu={p["apu"] is not None} but '
                                              f'apu_emissions has {len(E["apu_em"])} species'))
    if E['gse_em']:
        gse_fuel = _GSE_CO2[p['aircraft_class']] / f['EI_CO2']
        comp_fuel.append(gse_fuel)
        if 'CO2' in E['gse_em'] and not eq(E['gse_em']['CO2'], f['EI_CO2'] * gse_fuel):
            bad.append(('gse_amount_eq_index_times_fuel', f'CO2: {E["gse_em"]["CO2"]!r} != EI_CO2 * {gse_fuel!r}'))
        if 'H2O' in E['gse_em'] and not eq(E['gse_em']['H2O'], f['EI_H2O'] * gse_fuel):
            bad.append(('gse_amount_eq_index_times_fuel', f'H2O: {E["gse_em"]["H2O"]!r} != EI_H2O * {gse_fuel!r}'))
    if c['gse_enabled'] != bool(E['gse_em']):
        bad.append(('gse_component_presence', f'gse_enabled={c["gse_enabled"]} but gse_emissions has {len(E["gse_em"])} species'))
    # --- total fuel burn = sum of the fuel of exactly those components
    if not eq(E['total_fuel'], math.fsum(comp_fuel), _scale(comp_fuel)):
        bad.append(('total_fuel_eq_component_fuel', f'total_fuel_burn {E["total_fuel"]!r} != sum of components {comp_fuel!r}'))
    # --- totals = sum of parts (+ life-cycle CO2)
    lc_on = c['co2_enabled'] and c['lifecycle_enabled']
    if lc_on:
        exp_lc = f['lifecycle_CO2'] * ((fm[0] - fm[-1]) * f['energy_MJ_per_kg']) if f['lifecycle_CO2'] is not None else float('nan')
        if not eq(E['lifecycle'], exp_lc):
            bad.append(('lifecycle_adjustment', f'lifecycle_co2 {E["lifecycle"]!r} != {exp_lc!r}'))
    elif E['lifecycle'] != 0.0:
        bad.append(('lifecycle_adjustment', f'lifecycle_co2 {E["lifecycle"]!r} although life-cycle accounting is off'))
    every = set(E['traj_em']) | set(E['lto_em']) | set(E['apu_em']) | set(E['gse_em'])
    for s in sorted(every - set(E['total'])):
        bad.append(('total_eq_sum_of_parts', f'{s}: emitted by a component but absent from total_emissions'))
    for s, tot in E['total'].items():
        terms = list(E['traj_em'].get(s, [])) + list(E['lto_em'].get(s, []))
        if s in E['apu_em']:
            terms.append(E['apu_em'][s])
        if s in E['gse_em']:
            terms.append(E['gse_em'][s])
        if s == 'CO2':
            terms.append(E['lifecycle'])
        if not eq(tot, math.fsum(terms), _scale(terms)):
            bad.append(('total_eq_sum_of_parts', f'{s}: total {tot!r} != re-summed parts {math.fsum(terms)!r}'))
    # --- every kilogram of trajectory fuel counted once: CO2 / H2O = EI x fuel, in both accounting modes
    cfgd = case['cfg']
    for s, ei in (('CO2', f['EI_CO2']), ('H2O', f['EI_H2O'])):
        if cfgd.get(s.lower() + '_enabled') and (s not in E['traj_em'] or s not in E['lto_em']):
            # the species is switched ON: its trajectory + LTO amount must be EI x (trajectory + LTO fuel), so it cannot be missing
            # (a missing entry counts as zero emitted for all the fuel that was burnt)
            miss = [c for c in ('traj_em', 'lto_em') if s not in E[c]]
            bad.append(('co2_h2o_eq_ei_times_fuel', f'{s} is enabled but has no {"/".join(miss)} entry: amount 0 g for '
                                                    f'{traj_fuel + math.fsum(lto_fuel)!r} kg of trajectory+LTO fuel (EI {ei!r})'))
        if s in E['traj_em']:
            got = math.fsum(E['traj_em'][s])
            if not eq(got, ei * traj_fuel, ei * _scale(burn)):
                bad.append(('co2_h2o_eq_ei_times_fuel', f'{s}: trajectory amount {got!r} != EI {ei!r} * fuel {traj_fuel!r} ({mode} mode)'))
            if mode != 'lto' and not eq(got, ei * (fm[0] - fm[-1]), ei * _scale(burn)):
                bad.append(('traj_mode_fuel_counted_once', f'{s}: trajectory amount {got!r} != EI * (fm[0]-fm[-1]) = {ei * (fm[0] - fm[-1])!r}'))
        if s in E['lto_em']:
            got = math.fsum(E['lto_em'][s])
            if not eq(got, ei * math.fsum(lto_fuel), ei * _scale(lto_fuel)):
                bad.append(('co2_h2o_eq_ei_times_fuel', f'{s}: LTO amount {got!r} != EI {ei!r} * LTO fuel {math.fsum(lto_fuel)!r}'))
            if mode == 'lto':
                for m in range(4):
                    if not eq(E['lto_em'][s][m], ei * tims[m] * p['lto']['fuel_flow'][m]):
                        bad.append(('lto_mode_fuel_partition', f'{s}[{MODES[m]}]: {E["lto_em"][s][m]!r} != EI*TIM*ff'))
                        break
    # --- NOx and SOx splits in every component
    for grp, parts, tot in (('nox_split', ('NO', 'NO2', 'HONO'), 'NOx'), ('sox_split', ('SO2', 'SO4'), 'SOx')):
        for comp in ('traj_em', 'traj_idx', 'lto_em', 'lto_idx', 'apu_em', 'apu_idx', 'gse_em', 'total'):
            d = E[comp]
            present = [k for k in parts + (tot,) if k in d]
            if not present:
                continue
            if comp == 'total':
                # total_emissions always carries all 16 keys; the split must hold there as well
                pass
            if len(present) != len(parts) + 1:
                bad.append((grp, f'{comp}: only {present} of {parts + (tot,)} present'))
                continue
            vals = [d[k] for k in parts]
            if isinstance(d[tot], list):
                for i in range(len(d[tot])):
                    ssum = math.fsum(v[i] for v in vals)
                    if not eq(ssum, d[tot][i], abs(d[tot][i])):
                        bad.append((grp, f'{comp}[{i}]: {"+".join(parts)} = {ssum!r} != {tot} = {d[tot][i]!r}'))
                        break
            else:
                ssum = math.fsum(vals)
                if not eq(ssum, d[tot], abs(d[tot])):
                    bad.append((grp, f'{comp}: {"+".join(parts)} = {ssum!r} != {tot} = {d[tot]!r}'))
    # --- finite and non-negative
    def walk():
        for comp in ('traj_em', 'traj_idx', 'lto_em', 'lto_idx', 'apu_em', 'apu_idx', 'gse_em', 'total'):
            for s, v in E[comp].items():
                for i, x in enumerate(v if isinstance(v, list) else [v]):
                    yield f'{comp}[{s}][{i}]', x
        for i, x in enumerate(burn):
            yield f'burn[{i}]', x
        yield 'total_fuel_burn', E['total_fuel']
        yield 'lifecycle_co2', E['lifecycle']
    for name, x in walk():
        if not math.isfinite(x):
            bad.append(('amounts_finite', f'{name} = {x!r}'))
            break
    if check_sign:
        for name, x in walk():
            if x < 0.0:
                bad.append(('amounts_nonneg', f'{name} = {x!r}'))
                break
    return bad


# ------------------------------------------------------------------------------------------------ evaluation of one case
def nonneg_hypotheses(case) -> bool:
    """hypotheses of C01.amounts_nonneg that the generator could violate (APU carbon balance)."""
    a = case['pm']['apu']
    if a is None:
        return True
    pm = max(a['PM10_g_per_kg'], 0.0)
    return 3160 - (44 / 28) * a['CO_g_per_kg'] - (44 / 16.4) * a['HC_g_per_kg'] - (44 / 12) * pm >= 0.0


def evaluate(ctx, cases, record=True):
    """Run impl (both modes) + model on every case; register divergences and clause failures. -> #failing cases"""
    runs = []
    ops = []
    for case in cases:
        impl = {m: run_impl(case, m) for m in ('trajectory', 'lto')}
        sls = None
        if case['cfg']['nox_method'] == 'bffm2':
            try:
                sls = sls_flow(case)
            except Exception as x:  # helper moved/renamed: speciation correspondence is skipped, the clause still runs
                ctx.count('sls_helper_unavailable')
                if len(ctx.notes) < 3:
                    ctx.notes.append(f'sls helper unavailable: {type(x).__name__}')
        ei_t = impl['trajectory'].get('traj_idx', {}) if 'err' not in impl['trajectory'] else {}
        ei_l = impl['lto'].get('lto_idx', {}) if 'err' not in impl['lto'] else {}
        use_model = supported(case) and 'err' not in impl['trajectory'] and 'err' not in impl['lto'] and \
            (sls is not None or case['cfg']['nox_method'] != 'bffm2')
        for m in ('trajectory', 'lto'):
            runs.append((case, m, impl[m], use_model))
            if use_model:
                ops.append(model_op(case, m, ei_t, ei_l, sls))
    outs = iter(ctx.driver.outs(ops)) if ops else iter(())
    failing = 0
    for case, m, imp, use_model in runs:
        key = _key(case) + ':' + m
        sup = supported(case)
        if 'err' in imp:
            if sup:
                # a supported combination must return an inventory
                ctx.count('impl_raised_on_supported')
                if record:
                    ctx.clause_fail('inventory_returned', _replay_case(case, m), None,
                                    f'compute_emissions raised {imp["err"]}: {imp.get("msg", "")}')
                failing += 1
            else:
                ctx.count('excluded_combination_raises:' + imp['err'])
            if use_model:
                next(outs)
            if record:
                ctx.case(key, nontrivial=False)
            continue
        bad = clauses(case, m, imp, check_sign=nonneg_hypotheses(case))
        if bad:
            failing += 1
            if record:
                for cl, det in bad[:3]:
                    ctx.clause_fail(cl, _replay_case(case, m), None, det)
        if use_model:
            mod = decode_model(next(outs))
            d = compare(imp, mod)
            if d:
                ctx.count('divergent_inventories')
                if record:
                    ctx.diverge('assemble', _replay_case(case, m), '; '.join(d[:4]))
        elif not sup:
            ctx.count('excluded_combination_returns_inventory')
        if record:
            t = case['traj']
            n = len(t['fuel_mass'])
            nontriv = (m == 'lto' and 0 < t['n_climb'] + t['n_descent'] < n) or case['pm']['apu'] is not None or \
                case['cfg'] != DEFAULT_CFG or any(a == b for a, b in zip(t['fuel_mass'], t['fuel_mass'][1:]))
            ctx.case(key, nontrivial=bool(nontriv),
                     sample={'mode': m, 'n': n, 'n_climb': t['n_climb'], 'n_descent': t['n_descent'], 'cfg': case['cfg'],
                             'total_fuel_burn': imp['total_fuel']})
            _histogram(ctx, case, m)
    return failing


def _histogram(ctx, case, m):
    t = case['traj']
    n = len(t['fuel_mass'])
    k = t['n_climb'] + t['n_descent']
    ctx.count('mode:' + m)
    ctx.count('window:' + ('k=0' if k == 0 else 'k=1' if k == 1 else 'k=n-1' if k == n - 1 else 'k=n' if k == n
                           else 'k>n' if k > n else 'proper'))
    ctx.count('len:' + ('1' if n == 1 else '2-8' if n <= 8 else '9-60' if n <= 60 else '61-400'))
    a = case['pm']['apu']
    ctx.count('apu:' + ('absent' if a is None else 'zero-flow' if a['fuel_kg_per_s'] == 0.0 else 'running'))
    c = case['cfg']
    ctx.count('nox:' + c['nox_method'])
    ctx.count('pmnvol:' + c['pmnvol_method'])
    ctx.count('class:' + case['pm']['aircraft_class'])
    if any(a_ == b_ for a_, b_ in zip(t['fuel_mass'], t['fuel_mass'][1:])):
        ctx.count('zero-burn-segment')
    if max(t['altitude']) > 11000.0:
        ctx.count('above-tropopause')


def _key(case):
    import hashlib

    return hashlib.sha256(json.dumps(case, sort_keys=True).encode()).hexdigest()[:16]


def _replay_case(case, mode):
    return {'case': case, 'mode': mode}


# ------------------------------------------------------------------------------------------------ small direct correspondences
def small_correspondences(ctx):
    """NOx_speciation(), EI_SOx, get_thrust_cat_cruise (incl. exact threshold values), _LTO_TIMS, slice bookkeeping."""
    from AEIC.emissions.ei.nox import NOx_speciation
    from AEIC.emissions.ei.sox import EI_SOx
    from AEIC.emissions.utils import get_thrust_cat_cruise
    from AEIC.performance.types import ThrustMode, ThrustModeValues
    from AEIC.types import Fuel

    rng = ctx.rng
    sp = NOx_speciation()
    out = ctx.driver.outs([{'op': 'c01.speciation'}, {'op': 'c01.tims'}])
    for k, v in (('no', sp.no), ('no2', sp.no2), ('hono', sp.hono)):
        a = [float(v[m]) for m in ThrustMode]
        b = u2fs(out[0][k])
        if a != b:
            ctx.diverge('NOx_speciation', {'which': k}, f'impl={a} model={b}')
    for i, m in enumerate(ThrustMode):
        ssum = float(sp.no[m]) + float(sp.no2[m]) + float(sp.hono[m])
        if not close(ssum, 1.0, 1e-12):
            ctx.clause_fail('nox_split', {'kind': 'speciation', 'speciation_mode': m.name}, None, f'NO+NO2+HONO fractions sum to {ssum!r} in {m.name}')
    if [float(x) for x in _tims()] != u2fs(out[1]):
        ctx.diverge('_LTO_TIMS', {}, f'impl={_tims()} model={u2fs(out[1])}')
    fuels, ops = [], []
    for i in range(200):
        fd = gen_fuel(rng)
        fuels.append(fd)
        ops.append({'op': 'c01.sox', 'fuel': {'energy': f2u(fd['energy_MJ_per_kg']), 'h2o': f2u(fd['EI_H2O']),
                                               'co2': f2u(fd['EI_CO2']), 'lifecycle': None,
                                               'sulfur': f2u(fd['fuel_sulfur_content_nom']), 'yield': f2u(fd['sulfate_yield_nom'])}})
    for fd, o in zip(fuels, ctx.driver.outs(ops)):
        r = EI_SOx(Fuel.model_validate(fd))
        a = [float(r.EI_SOx), float(r.EI_SO2), float(r.EI_SO4)]
        b = [u2f(o['sox']), u2f(o['so2']), u2f(o['so4'])]
        if a != b:
            ctx.diverge('EI_SOx', {'fuel': fd}, f'impl={a} model={b}')
        if not close(a[1] + a[2], a[0], 1e-12):
            ctx.clause_fail('sox_split', {'kind': 'sox', 'fuel': fd}, None, f'EI_SO2+EI_SO4={a[1] + a[2]!r} != EI_SOx={a[0]!r}')
    ctx.count('sox_cases', len(fuels))
    ops, exp = [], []
    for i in range(150):
        cal = sorted(_r(rng, 0.05, 3.0) for _ in range(4))
        low, appr = (cal[0] + cal[1]) / 2.0, (cal[1] + cal[2]) / 2.0
        ff = [low, appr, np.nextafter(low, 0), np.nextafter(low, 9), np.nextafter(appr, 0), np.nextafter(appr, 9), 0.0,
              float('nan'), float('inf')] + [_r(rng, 0, 4) for _ in range(8)]
        with np.errstate(all='ignore'):
            cats = get_thrust_cat_cruise(np.array(ff, dtype=float), ThrustModeValues(*cal))
        exp.append([str(getattr(c, 'name', c)).upper().split('.')[-1] for c in cats])
        ops.append({'op': 'c01.thrustcat', 'ff_cal': fs2u(cal), 'ff': fs2u(ff)})
    for o, e, q in zip(ctx.driver.outs(ops), exp, ops):
        if o != e:
            ctx.diverge('get_thrust_cat_cruise', {'ff_cal': u2fs(q['ff_cal']), 'ff': u2fs(q['ff'])}, f'impl={e} model={o}')
    ctx.count('thrustcat_cases', len(ops))
    # slice bookkeeping against Python's own slice semantics on the implementation's _trajectory_slice
    from AEIC.config import Config
    from AEIC.emissions.trajectory import _trajectory_slice

    ops, exp = [], []
    for mode in ('trajectory', 'lto'):
        try:
            Config.reset()
        except Exception:
            pass
        Config.load(emissions=dict(DEFAULT_CFG, climb_descent_mode=mode, fuel='conventional_jetA'),
                    data_path_overrides=[REPO / 'tests' / 'data'])
        try:
            for n in range(0, 9):
                for nc in range(0, 11):
                    for nd in range(0, 11):
                        tr = _Traj()
                        tr._n, tr.n_climb, tr.n_descent = n, nc, nd
                        s = _trajectory_slice(tr)
                        kept = list(range(n))[s]
                        zeroed = [True] * n
                        z = np.ones(n)
                        z[: s.start] = 0.0
                        z[s.stop:] = 0.0
                        exp.append((kept, [i for i in range(n) if z[i] != 0.0]))
                        ops.append({'op': 'c01.window', 'n': n, 'nclimb': nc, 'ndescent': nd, 'lto': mode == 'lto'})
                        del zeroed
        finally:
            Config.reset()
    for o, (kept, nz), q in zip(ctx.driver.outs(ops), exp, ops):
        lo, hi = o
        mk = [i for i in range(q['n']) if lo <= i < hi]
        if mk != kept or mk != nz:
            ctx.diverge('_trajectory_slice', q, f'impl slice keeps {kept}, zeroing keeps {nz}, model window [{lo},{hi})')
    ctx.count('window_cases', len(ops))


# ------------------------------------------------------------------------------------------------ search around a divergence
def widened_search(ctx, apus, budget):
    """After a divergence / broken proof without a clause failure: seeded search for a failing input with the clause
    evaluator only (no model), emphasising the structures where balance bugs hide."""
    from harness.common import make_rng

    rng = make_rng(PID, ctx.seed, 'search')
    found = 0
    batch = []
    for i in range(budget):
        case = gen_case(rng, 10_000_000 + i, apus)
        batch.append(case)
    for case in batch:
        for m in ('trajectory', 'lto'):
            imp = run_impl(case, m)
            if 'err' in imp:
                continue
            bad = clauses(case, m, imp, check_sign=nonneg_hypotheses(case))
            if bad:
                found += 1
                for cl, det in bad[:2]:
                    ctx.clause_fail(cl, _replay_case(case, m), None, det)
                if found >= 3:
                    return found
    return found


def load_apus():
    import tomllib

    try:
        p = REPO / 'src' / 'AEIC' / 'data' / 'engines' / 'APU_data.toml'
        return tomllib.loads(p.read_text())['APU']
    except Exception:
        return []


# ------------------------------------------------------------------------------------------------ entry points
def shrink(ctx, case, mode):
    """Greedy reduction of a failing case: shorter trajectory, default options. Keeps the case failing."""
    def fails(c):
        imp = run_impl(c, mode)
        return 'err' not in imp and bool(clauses(c, mode, imp, check_sign=nonneg_hypotheses(c)))

    cur = json.loads(json.dumps(case))
    t = cur['traj']
    changed = True
    while changed and len(t['fuel_mass']) > 1:
        changed = False
        n = len(t['fuel_mass'])
        for cut in (n // 2, 1):
            if cut < 1 or n - cut < 1:
                continue
            for where in ('tail', 'head'):
                c2 = json.loads(json.dumps(cur))
                t2 = c2['traj']
                for k in ('fuel_mass', 'fuel_flow', 'altitude', 'true_airspeed'):
                    t2[k] = t2[k][:-cut] if where == 'tail' else t2[k][cut:]
                n2 = n - cut
                t2['n_climb'] = min(t2['n_climb'], n2)
                t2['n_descent'] = min(t2['n_descent'], n2)
                if fails(c2):
                    cur, t, changed = c2, c2['traj'], True
                    break
            if changed:
                break
    for k, v in DEFAULT_CFG.items():
        if cur['cfg'][k] != v:
            c2 = json.loads(json.dumps(cur))
            c2['cfg'][k] = v
            if supported(c2) and fails(c2):
                cur = c2
    return cur


def main(ctx):
    ctx.proofs()
    aeic_setup()
    from AEIC.config import Config

    Config.reset()
    apus = load_apus()
    try:
        # 1. corpus first
        cdir = CORPUS_DIR / PID
        corpus = []
        if cdir.exists():
            for p in sorted(cdir.glob('*.json')):
                d = json.loads(p.read_text())
                corpus.append(d['case'])
        if corpus:
            evaluate(ctx, corpus)
            ctx.count('corpus_cases', len(corpus))
        rows_ok = sum(1 for a in apus if nonneg_hypotheses({'pm': {'apu': a}}))
        ctx.extra['apu_data_rows_satisfying_carbon_bound'] = f'{rows_ok}/{len(apus)}'
        if rows_ok != len(apus):
            ctx.notes.append('an APU_data.toml row violates the bound of C01.apu_carbon_balance_of_data_bound: '
                             'non-negativity of its CO2 index is not covered by the theorem (sign clause skipped for it)')
        # 2. small direct correspondences (speciation, SOx, thrust category, TIMs, slice)
        small_correspondences(ctx)
        # 3. the dummy model / trajectory of the repo's own test-suite under every supported option set of a pairwise sample
        cases = [dummy_case(cfg) for cfg in dummy_cfgs(ctx.rng, 24 if ctx.tier == 'quick' else 200)]
        evaluate(ctx, cases)
        # 4. generated stream
        n_inv = ctx.scale(quick=1500, thorough=40000)
        n_cases = n_inv // 2
        done = 0
        while done < n_cases:
            k = min(250, n_cases - done)
            batch = [gen_case(ctx.rng, done + i, apus) for i in range(k)]
            evaluate(ctx, batch)
            done += k
        # 5. excluded combinations: only observed (clauses if an inventory comes back), never compared with the model
        excl = [gen_case(ctx.rng, 5_000_000 + i, apus, want_supported=False) for i in range(ctx.scale(40, 400))]
        evaluate(ctx, excl)
        # 6. failing-input search when only the proof / correspondence is broken
        if (ctx.divergences or ctx.broken) and not ctx.violations:
            # first: the diverging inputs themselves were already judged by the clauses in evaluate(); widen
            ctx.extra['search'] = {'attempted': True, 'found': widened_search(ctx, apus, ctx.scale(600, 6000))}
        # minimise the first violation for the replay file
        if ctx.violations and isinstance(ctx.violations[0]['case'], dict) and 'case' in ctx.violations[0]['case']:
            v = ctx.violations[0]
            try:
                small = shrink(ctx, v['case']['case'], v['case']['mode'])
                imp = run_impl(small, v['case']['mode'])
                bad = clauses(small, v['case']['mode'], imp, check_sign=nonneg_hypotheses(small)) if 'err' not in imp else []
                if bad:
                    ctx.violations.insert(0, {'clause': bad[0][0], 'case': _replay_case(small, v['case']['mode']),
                                              'detail': bad[0][1] + ' (minimised)'})
            except Exception as x:  # shrinking is best effort
                ctx.notes.append(f'shrink failed: {type(x).__name__}: {x}')
        # kernels regenerated from the source by the symbolic translator (translator validation; the bridge to the model is
        # proved in Lean, AeicProofs/Lemmas/KernelBridge2.lean)
        from harness import kernels

        kernels.check_sym(ctx, files={'emissions/gse.py', 'emissions/apu.py'})
        check_vector_kernels(ctx, apus, ctx.scale(quick=40, thorough=600))
    finally:
        try:
            Config.reset()
        except Exception:
            pass
    return ctx.finish(RULE, TRUSTED, ASSUME)


def dummy_case(cfg):
    """DummyPerformanceModel / DummyTrajectory of tests/test_emissions.py (numbers copied)."""
    return dict(
        cfg=cfg, fuel=dict(FUELS['jetA']),
        pm=dict(lto=dict(fuel_flow=[0.25, 0.5, 0.9, 1.2], EI_NOx=[8.0, 12.0, 32.0, 40.0], EI_HC=[4.0, 3.0, 1.5, 1.0],
                         EI_CO=[20.0, 10.0, 3.0, 2.0]),
                edb=dict(engine='Test Engine', uid='TEST123', engine_type='TF', BP_Ratio=5.0, rated_thrust=100.0,
                         fuel_flow=[0.25, 0.5, 0.9, 1.2], CO_EI_matrix=[20.0, 15.0, 10.0, 5.0],
                         HC_EI_matrix=[4.0, 3.0, 2.0, 1.0], EI_NOx_matrix=[8.0, 12.0, 26.0, 32.0],
                         SN_matrix=[6.0, 8.0, 11.0, 13.0], nvPM_mass_matrix=[5.0, 5.5, 6.0, 6.5],
                         nvPM_num_matrix=[2.0e14, 2.1e14, 2.2e14, 2.3e14], PR=[22.0] * 4, EImass_max=8.0,
                         EImass_max_thrust=0.575, EInum_max=2.4e14, EInum_max_thrust=0.575),
                apu=dict(name='Test APU', defra='00000', fuel_kg_per_s=0.03, PM10_g_per_kg=0.4, NOx_g_per_kg=0.05,
                         HC_g_per_kg=0.02, CO_g_per_kg=0.03),
                aircraft_class='wide', number_of_engines=2),
        traj=dict(fuel_mass=[2000.0, 1994.0, 1987.5, 1975.0, 1960.0, 1945.0], fuel_flow=[0.3, 0.35, 0.55, 0.65, 0.5, 0.32],
                  altitude=[0.0, 1500.0, 6000.0, 11000.0, 9000.0, 2000.0],
                  true_airspeed=[120.0, 150.0, 190.0, 210.0, 180.0, 140.0], n_climb=2, n_descent=2))


def dummy_cfgs(rng, k):
    out = [dict(DEFAULT_CFG)]
    while len(out) < k:
        c = gen_cfg(rng, default_bias=0.0)
        case = dummy_case(c)
        if supported(case):
            out.append(c)
    return out


def replay(ctx, path):
    """Re-run one recorded case against the implementation: prints the clause verdicts and the model comparison."""
    aeic_setup()
    from AEIC.config import Config

    Config.reset()
    d = json.loads(Path(path).read_text())
    rec = d.get('first', d)
    if d.get('kind') == 'proof-or-correspondence-broken':
        for b in d.get('broken_obligations', []):
            print(f'[{PID}] replay: broken proof obligation: {b}')
        divs = d.get('divergences') or []
        print(f'[{PID}] replay: {d.get("divergence_count", 0)} model/implementation divergences recorded; no clause of the '
              f'property failed on any explored input. Re-running the first diverging input:')
        if not divs:
            return 1
        rec = divs[0]
    rc = rec.get('case', rec)
    if rc.get('kind') == 'speciation':
        from AEIC.emissions.ei.nox import NOx_speciation
        from AEIC.performance.types import ThrustMode

        sp = NOx_speciation()
        m = ThrustMode[rc['speciation_mode']]
        ssum = float(sp.no[m]) + float(sp.no2[m]) + float(sp.hono[m])
        ok = close(ssum, 1.0, 1e-12)
        print(f'[{PID}] replay: NOx_speciation() fractions in {m.name}: NO={sp.no[m]!r} NO2={sp.no2[m]!r} HONO={sp.hono[m]!r} '
              f'sum={ssum!r} -> {"all clauses hold" if ok else "VIOLATION reproduced (NO+NO2+HONO != NOx)"}')
        return 0 if ok else 1
    if rc.get('kind') == 'sox':
        from AEIC.emissions.ei.sox import EI_SOx
        from AEIC.types import Fuel

        r = EI_SOx(Fuel.model_validate(rc['fuel']))
        ok = close(float(r.EI_SO2) + float(r.EI_SO4), float(r.EI_SOx), 1e-12)
        print(f'[{PID}] replay: EI_SOx: SO2={r.EI_SO2!r} SO4={r.EI_SO4!r} SOx={r.EI_SOx!r} -> '
              f'{"all clauses hold" if ok else "VIOLATION reproduced (SO2+SO4 != SOx)"}')
        return 0 if ok else 1
    if 'case' not in rc:
        print(f'[{PID}] replay: {rec.get("correspondence", "?")} diverged on {json.dumps(rc)[:300]}: {rec.get("detail", "")[:300]}')
        return 1 if d.get('kind') == 'proof-or-correspondence-broken' else 2
    case, mode = rc['case'], rc.get('mode', 'trajectory')
    imp = run_impl(case, mode)
    if 'err' in imp:
        print(f'[{PID}] replay: compute_emissions raised {imp["err"]}: {imp.get("msg")}')
        return 1 if supported(case) else 0
    bad = clauses(case, mode, imp, check_sign=nonneg_hypotheses(case))
    for cl, det in bad:
        print(f'[{PID}] replay: clause {cl} FAILS on the implementation: {det}')
    ndiff = 0
    try:
        impl = {m: (imp if m == mode else run_impl(case, m)) for m in ('trajectory', 'lto')}
        sls = sls_flow(case) if case['cfg']['nox_method'] == 'bffm2' else None
        if supported(case) and all('err' not in v for v in impl.values()):
            op = model_op(case, mode, impl['trajectory']['traj_idx'], impl['lto']['lto_idx'], sls)
            dd = compare(imp, decode_model(ctx.driver.outs([op])[0]))
            ndiff = len(dd)
            for x in dd[:6]:
                print(f'[{PID}] replay: model/implementation differ: {x}')
    except Exception as x:
        print(f'[{PID}] replay: model comparison skipped ({type(x).__name__}: {x})')
    print(f'[{PID}] replay: mode={mode} n={len(case["traj"]["fuel_mass"])} n_climb={case["traj"]["n_climb"]} '
          f'n_descent={case["traj"]["n_descent"]} -> {"VIOLATION reproduced" if bad else "all clauses hold"}'
          + (f'; model and implementation differ in {ndiff} place(s)' if ndiff else ''))
    return 1 if (bad or ndiff) else 0


# ------------------------------------------------------------------------------------------------ vector kernels (translator)
def check_vector_kernels(ctx, apus, n_cases: int):
    """Validates the vector kernels regenerated from emission.py / trajectory.py (pykern, third generation): the real functions
    run on generated flights under generated configurations; inputs and targets are read from the live calls and frames (the
    index arrays BEFORE the window zeroing are copied when the running frame reaches the `idx_slice = …` line), the generated
    list definitions run on the same bit patterns (`kern.evalv`), results compared element by element."""
    import ast
    import sys

    from AEIC.config import Config, config
    from harness import kernels as K
    from harness.common import close, f2u, pykern, u2f

    g, errors = pykern.translate_all()
    MODES = ['IDLE', 'APPROACH', 'CLIMB', 'TAKEOFF']
    lto_names = [f'lto_{w}_{m}' for m in MODES for w in ('emission', 'index', 'fuel')] + ['lto_fuel_burn']
    names = ['segment_fuel_burn', 'lifecycle_co2', 'species_total', 'traj_emissions', 'traj_indices', 'traj_fuel_burn',
             'traj_window_lo', 'traj_window_hi'] + lto_names
    specs = {k.name: k for k in pykern.SYM_KERNELS if k.name in names}
    sm = ctx.extra.setdefault('kernels', {}).setdefault('vector', {'kernels': 0, 'points': 0, 'elements': 0, 'mismatches': 0,
                                                                   'untranslatable': {}})
    for n in names:
        if n in errors:
            sm['untranslatable'][n] = errors[n]
            ctx.broken_obligation(f'kernel translator: {errors[n]}')
    present = set(ctx.driver.outs([{'op': 'kern.names'}])[0]['present']) if ctx.driver.available() else set()
    usable = [n for n in names if n in specs and n not in errors and n in present]
    for n in names:
        if n in specs and n not in errors and n not in present:
            ctx.broken_obligation(f'kernel {n} missing from the built driver (stale build?)')
    seen: set = set()
    queue: list = []

    def run(name, attrs=None, vattrs=None, x=(), b=(), v=(), nn=(), want=None, what=''):
        if name not in usable:
            return
        pt = {'x': [f2u(float(t)) for t in x], 'b': [bool(t) for t in b],
              'v': [[f2u(float(t)) for t in np.asarray(a, dtype=float).ravel()] for a in v], 'n': [int(t) for t in nn]}
        if pykern.is_vector_kernel(specs[name], g):
            op = {'op': 'kern.evalv', 'name': name, 'attrs': {k_: f2u(float(t)) for k_, t in (attrs or {}).items()},
                  'vattrs': {k_: [f2u(float(t)) for t in np.asarray(a, dtype=float).ravel()] for k_, a in (vattrs or {}).items()},
                  'pts': [pt]}
        else:
            op = {'op': 'kern.eval', 'name': name, 'attrs': {k_: f2u(float(t)) for k_, t in (attrs or {}).items()},
                  'pts': [{'x': pt['x'], 'b': pt['b']}]}
        queue.append((name, op, [float(t) for t in np.asarray(want, dtype=float).ravel()], what))

    def flush():
        if not queue:
            return
        outs = ctx.driver.outs([q[1] for q in queue])
        for (name, op, w, what), o in zip(queue, outs):
            have = [u2f(t) for t in o[0]] if isinstance(o[0], list) else [u2f(o[0])]
            seen.add(name)
            sm['points'] += 1
            sm['elements'] += len(w)
            ctx.evaluations += 1
            if not (len(w) == len(have) and all(close(a, c, 1e-9, 1e-300) for a, c in zip(w, have))):
                sm['mismatches'] += 1
                if sm['mismatches'] <= 5:
                    ctx.diverge(f'kernel {name} (vector translation of {specs[name].file}:{specs[name].func}) vs implementation',
                                {'kernel': name, 'what': what, 'op': op},
                                f'implementation {w[:8]!r} vs translated kernel {have[:8]!r}')
        queue.clear()

    import AEIC.emissions.emission as em_mod
    import AEIC.emissions.trajectory as tr_mod
    from AEIC.config.emissions import ClimbDescentMode

    # the line of `idx_slice = _trajectory_slice(traj)` in get_trajectory_emissions (where the unwindowed indices are copied)
    mod = pykern.Module.get('emissions/trajectory.py')
    fn_ast = mod.funcs['get_trajectory_emissions']
    slice_line = next((st.lineno for st in fn_ast.body if isinstance(st, ast.Assign) and any(
        isinstance(t, ast.Name) and t.id == 'idx_slice' for t in st.targets)), None)
    if slice_line is None and any(n in usable for n in ('traj_emissions', 'traj_indices', 'traj_fuel_burn')):
        ctx.diverge('kernel scenario', {'group': 'get_trajectory_emissions'}, 'no `idx_slice = …` statement to observe the indices at')
    code_te = K._unwrap(tr_mod.get_trajectory_emissions).__code__
    code_ce = K._unwrap(em_mod.compute_emissions).__code__
    import AEIC.emissions.lto as lto_mod
    from AEIC.performance.types import ThrustMode

    code_lto = K._unwrap(lto_mod.get_LTO_emissions).__code__
    fn_lto = pykern.Module.get('emissions/lto.py').funcs['get_LTO_emissions']
    # the line where `lto_fuel_burn` is first assigned: the unzeroed LTO indices are copied there
    lto_line = next((st.lineno for st in fn_lto.body if isinstance(st, ast.Assign) and any(
        isinstance(t, ast.Name) and t.id == 'lto_fuel_burn' for t in st.targets)), None)
    tmv4 = lambda v: [float(v[m]) for m in ThrustMode]  # noqa: E731

    for i in range(n_cases):
        case = gen_case(ctx.rng, 9_000_000 + i, apus)
        mode = 'lto' if i % 2 else 'trajectory'
        cfg = dict(case['cfg'], climb_descent_mode=mode, fuel='conventional_jetA')
        try:
            Config.reset()
        except Exception:
            pass
        try:
            Config.load(emissions=cfg, data_path_overrides=[REPO / 'tests' / 'data'])
            pm, fuel, tr = build(case)
            snap: dict = {}

            def local_te(frame, event, arg):
                if event == 'line' and frame.f_lineno == slice_line and 'pre' not in snap:
                    snap['pre'] = {s: np.array(a, dtype=float, copy=True) for s, a in frame.f_locals['indices'].items()}
                    snap['fb'] = np.array(frame.f_locals['fuel_burn_per_segment'], dtype=float, copy=True)
                elif event == 'return':
                    loc = frame.f_locals
                    if 'idx_slice' in loc:
                        snap['slice'] = loc['idx_slice']
                        snap['post_idx'] = {s: np.array(a, dtype=float, copy=True) for s, a in loc['indices'].items()}
                        snap['post_em'] = {s: np.array(a, dtype=float, copy=True) for s, a in loc['emissions'].items()}
                        snap['tfb'] = float(loc['total_fuel_burn'])
                return local_te

            def local_ce(frame, event, arg):
                if event == 'return' and 'fuel_burn_per_segment' in frame.f_locals:
                    snap['burn'] = np.array(frame.f_locals['fuel_burn_per_segment'], dtype=float, copy=True)
                return local_ce

            def local_lto(frame, event, arg):
                if event == 'line' and frame.f_lineno == lto_line and 'lto_pre' not in snap:
                    snap['lto_pre'] = {s: tmv4(v) for s, v in frame.f_locals['lto_indices'].items()}
                elif event == 'return' and arg is not None and 'lto_fuel_burn' in frame.f_locals:
                    loc = frame.f_locals
                    snap['lto_post_idx'] = {s: tmv4(v) for s, v in loc['lto_indices'].items()}
                    snap['lto_post_em'] = {s: tmv4(v) for s, v in loc['lto_emissions'].items()}
                    snap['lto_fuel'] = tmv4(loc['lto_fuel_burn'])
                    snap['lto_ff'] = tmv4(loc['lto_data'].fuel_flow)
                    snap['lto_total'] = float(arg.fuel_burn)
                return local_lto

            def tracer(frame, event, arg):
                if event == 'call' and frame.f_code is code_lto and lto_line is not None:
                    return local_lto
                if event == 'call' and frame.f_code is code_te:
                    return local_te
                if event == 'call' and frame.f_code is code_ce:
                    return local_ce
                return None

            old = sys.gettrace()
            sys.settrace(tracer)
            try:
                with np.errstate(all='ignore'), contextlib.redirect_stdout(io.StringIO()):
                    E = em_mod.compute_emissions(pm, fuel, tr)
            except Exception:
                ctx.count('vector_kernel_scenario_refused')
                continue
            finally:
                sys.settrace(old)
            fm = np.array(tr.fuel_mass, dtype=float)
            if 'burn' in snap:
                run('segment_fuel_burn', vattrs={'traj.fuel_mass': fm}, want=snap['burn'], what='compute_emissions')
            if 'slice' in snap and 'pre' in snap:
                lo, hi = snap['slice'].start, snap['slice'].stop
                if lo is not None and hi is not None and 0 <= lo and 0 <= hi:
                    for s_, pre in snap['pre'].items():
                        v = [pre, snap['fb']]
                        run('traj_indices', v=v, nn=[lo, hi], want=snap['post_idx'][s_], what=f'{s_.name} window [{lo},{hi})')
                        run('traj_emissions', v=v, nn=[lo, hi], want=snap['post_em'][s_], what=f'{s_.name} window [{lo},{hi})')
                    run('traj_fuel_burn', v=[next(iter(snap['pre'].values()), snap['fb']), snap['fb']], nn=[lo, hi], want=[snap['tfb']])
            if 'lto_pre' in snap and 'lto_fuel' in snap:
                attrs = {f'lto_data.fuel_flow[ThrustMode.{m}]': snap['lto_ff'][j] for j, m in enumerate(MODES)}
                tm = config.emissions.climb_descent_mode != ClimbDescentMode.LTO
                for s_, pre in snap['lto_pre'].items():
                    for j, m in enumerate(MODES):
                        run(f'lto_index_{m}', x=pre, b=[tm], want=[snap['lto_post_idx'][s_][j]], what=f'{s_.name}')
                        run(f'lto_emission_{m}', attrs=attrs, x=pre, b=[tm], want=[snap['lto_post_em'][s_][j]], what=f'{s_.name}')
                some = next(iter(snap['lto_pre'].values()), [0.0] * 4)
                for j, m in enumerate(MODES):
                    run(f'lto_fuel_{m}', attrs=attrs, x=some, b=[tm], want=[snap['lto_fuel'][j]])
                run('lto_fuel_burn', attrs=attrs, x=some, b=[tm], want=[snap['lto_total']])
            # _trajectory_slice on the trajectory itself and on varied climb / descent counts
            lto_mode = config.emissions.climb_descent_mode != ClimbDescentMode.TRAJECTORY
            n = len(tr)
            for nc, nd in {(tr.n_climb, tr.n_descent), (0, 0), (n, 0), (0, n), (n // 2, n - n // 2)}:
                t2 = _Traj()
                t2._n, t2.n_climb, t2.n_descent = n, nc, nd
                sl = tr_mod._trajectory_slice(t2)
                run('traj_window_lo', b=[lto_mode], nn=[n, nc, nd], want=[sl.start])
                run('traj_window_hi', b=[lto_mode], nn=[n, nc, nd], want=[sl.stop])
            # sum_total_emissions on the components of this inventory
            tot = em_mod.sum_total_emissions(E.trajectory_emissions, E.lto_emissions, E.apu_emissions, E.gse_emissions)
            for s_ in tot:
                tv = E.trajectory_emissions[s_] if s_ in E.trajectory_emissions else None
                lt = E.lto_emissions[s_] if s_ in E.lto_emissions else None
                run('species_total', x=[0.0 if lt is None else lt.sum(), E.apu_emissions[s_] if s_ in E.apu_emissions else 0.0,
                                        E.gse_emissions[s_] if s_ in E.gse_emissions else 0.0],
                    v=[[] if tv is None else tv],
                    b=[tv is not None, lt is not None, bool(config.emissions.apu_enabled), s_ in E.apu_emissions,
                       bool(config.emissions.gse_enabled), s_ in E.gse_emissions], want=[tot[s_]], what=s_.name)
            if fuel.lifecycle_CO2 is not None and len(fm) > 0:
                run('lifecycle_co2', attrs={'fuel.lifecycle_CO2': fuel.lifecycle_CO2, 'fuel.energy_MJ_per_kg': fuel.energy_MJ_per_kg},
                    vattrs={'traj.fuel_mass': fm}, want=[em_mod.get_lifecycle_emissions(fuel, tr)])
        finally:
            try:
                Config.reset()
            except Exception:
                pass
    flush()
    sm['kernels'] = len(set(sm.get('names', [])) | seen)
    sm['names'] = sorted(set(sm.get('names', [])) | seen)
    ctx.count('vec_kernel_points', sm['points'])
