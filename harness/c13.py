"""C13 — schedule import creates exactly the flight instances the schedule row implies.

Correspondence: generated CSV rows -> real `CSVEntry.from_csv_row` + `OAGDatabase.add` into a temp SQLite file -> tables,
warnings, outcomes compared with the Lean model (`c13.import`, variant `fixed`).  The model gets its oracles from the harness:
static airport data (`AEIC.utils.airports.airport`), zone names (timezonefinder), UTC offsets (zoneinfo, for exactly the
local times involved), geodesic distances (pyproj, both argument orders offered; the model picks by *its* argument order).
Unit correspondences: calendar (CPython `date`), distance rule on threshold values, row filter / parser.

Clauses (evaluated on the implementation's output with an independent oracle built on `datetime` + `zoneinfo` + pyproj in
lon/lat order): no_raise, skipped_only_for_documented_reason, plausible_never_dropped, skipped_leaves_no_rows,
one_flight_record, flight_fields, open_ended_means_year_bounds, one_instance_per_matching_date, utc_instants,
misordered_dropped_with_warning, count_field_eq_instances.
"""
from __future__ import annotations

import gc
import json
import logging
import math
import os
import shutil
import sqlite3
import sys
import tempfile
from datetime import date, datetime, timedelta
from pathlib import Path
from zoneinfo import ZoneInfo

from harness.common import CORPUS_DIR, REPO, LeanError, f2u, u2f

PID = 'C13'
RULE = ('databases of 4-10 generated OAG rows over 40 world airports (both hemispheres, half-hour/45-minute zones, DST in '
        'both directions, date line): structured-valid stream (true distance perturbed around the 50 km / 10 % rule, ranges '
        'single-day / short / month / full-year / open-ended / reversed, all weekday subsets, arrival day P/blank/1/2), '
        'boundary stream (ranges across each zone\'s DST transition days with local times inside gaps and overlaps, year '
        'ends, leap days), skip stream (every filter code, unknown airports, same / co-located airports, malformed fields). '
        'A case is non-trivial when the row is imported with >= 1 instance or skipped for a reason other than the filter; '
        'distinct = distinct (year, row) contents.')
TRUSTED = ['Lean 4.33 kernel', 'axioms propext/Classical.choice/Quot.sound', 'Mathlib v4.33 (real-number lemmas for the distance rule)',
           'correspondence harness harness/c13.py', 'zoneinfo/tzdata as UTC-offset oracle', 'timezonefinder as zone-name oracle',
           'pyproj Geod.inv (lon, lat, lon, lat) as geodesic oracle', 'CPython datetime.date as calendar reference',
           'SQLite as append-only tables with id = rowcount + 1', 'pandas date_range / Timestamp.replace (modelled, validated by the correspondence)']
ASSUME = ['IEEE rounding is not modelled: the distance-rule theorems are over the reals; implementation vs Float model are compared bit-exactly on identical expressions',
          'rows are well-formed decimal strings (Python int() accepts more spellings than the model parser)',
          'effective dates lie inside the pandas Timestamp range (1678-2261)',
          'the zone offset oracle is consulted with fold=0 (what pandas Timestamp.replace(tzinfo=ZoneInfo) does)']

# ------------------------------------------------------------------------------------------------ world
AIRPORTS = {
    'LHR': (51.4706, -0.461941, 'GB'), 'CDG': (49.012798, 2.55, 'FR'), 'JFK': (40.639447, -73.779317, 'US'),
    'LAX': (33.942501, -118.407997, 'US'), 'PHX': (33.435302, -112.005905, 'US'), 'HNL': (21.318681, -157.922428, 'US'),
    'ANC': (61.1744, -149.996, 'US'), 'SYD': (-33.946098, 151.177002, 'AU'), 'LDH': (-31.5383, 159.077, 'AU'),
    'AKL': (-37.008099, 174.792007, 'NZ'), 'CHT': (-43.81, -176.457, 'NZ'), 'APW': (-13.83, -172.008, 'WS'),
    'NRT': (35.764702, 140.386002, 'JP'), 'DEL': (28.5665, 77.103104, 'IN'), 'KTM': (27.6966, 85.3591, 'NP'),
    'DXB': (25.2528, 55.3644, 'AE'), 'GRU': (-23.435556, -46.473056, 'BR'), 'SCL': (-33.393, -70.7858, 'CL'),
    'JNB': (-26.1392, 28.246, 'ZA'), 'CAI': (30.1219, 31.4056, 'EG'), 'KEF': (63.985, -22.6056, 'IS'),
    'SVO': (55.9726, 37.4146, 'RU'), 'YYT': (47.6186, -52.7519, 'CA'), 'TBU': (-21.2412, -175.15, 'TO'),
    'NLK': (-29.0416, 167.939, 'NF'), 'PPT': (-17.5537, -149.607, 'PF'), 'TRW': (1.38164, 173.147, 'KI'),
    'IKA': (35.4161, 51.1522, 'IR'), 'SIN': (1.35019, 103.994003, 'SG'), 'NBO': (-1.31924, 36.9278, 'KE'),
    'UIO': (-0.129167, -78.3575, 'EC'), 'LIS': (38.7813, -9.13592, 'PT'), 'FNC': (32.697899, -16.7745, 'PT'),
    'PDL': (37.7412, -25.6979, 'PT'), 'CXI': (1.98616, -157.35, 'KI'), 'ORD': (41.9786, -87.9048, 'US'),
    'BOS': (42.36197, -71.0079, 'US'), 'AMS': (52.308601, 4.76389, 'NL'), 'BRU': (50.901402, 4.48444, 'BE'),
    'FRA': (50.033333, 8.570556, 'DE'),
    # co-located twins (distance < 1 km from their sibling) for the zero-distance rule
    'JFX': (40.6441, -73.779317, 'US'), 'LHX': (51.4706, -0.4550, 'GB'),
    # a pair ~1 km apart, straddling the zero-distance threshold with its siblings
    'SIA': (1.35019, 104.00295, 'SG'), 'SIB': (1.35019, 104.00305, 'SG'),
}
UNKNOWN_CODES = ['QPX', 'ZZ9', 'XQX', '']
YEARS = [2019, 2019, 2019, 2020, 2016, 2023, 2024, 2011, 2000, 2100, 1999]
EXCLUDE_EQUIPMENT = ['BUS', 'HOV', 'LCH', 'LMO', 'RFS', 'TRN']
EQUIP = ['738', '320', '77W', 'AT7', 'E90', 'BUH', 'TRA']
CARRIERS = ['AA', 'BA', 'QF', 'NZ', 'VT', 'EK', '9W', 'U2']

_state: dict = {}

FID = 'C13-distance-check-geod-args-swapped'
V_INTENDED = dict(raw_range=False, swap_geod=False)
V_CURRENT = dict(raw_range=False, swap_geod=True)     # the code as it exists: open finding FID
DIST_CLAUSES = ('plausible_never_dropped', 'skipped_only_for_documented_reason')


def load_own_findings(ctx):
    """findings_C13.json is the fragment destined for known_findings.json; honour it when it has not been merged yet"""
    p = Path(__file__).resolve().parents[1] / 'findings_C13.json'
    if not p.exists():
        return
    for f in json.loads(p.read_text()):
        if f.get('property') == PID and f['id'] not in ctx.findings:
            ctx.findings[f['id']] = f
            if f.get('status') == 'open':
                ctx.open_findings[f['id']] = f


def _write_airports_csv(d: Path):
    (d / 'airports').mkdir(parents=True, exist_ok=True)
    cols = ['id', 'ident', 'type', 'name', 'latitude_deg', 'longitude_deg', 'elevation_ft', 'continent', 'iso_country',
            'iso_region', 'municipality', 'scheduled_service', 'icao_code', 'iata_code', 'gps_code', 'local_code',
            'home_link', 'wikipedia_link', 'keywords']
    import csv

    with open(d / 'airports' / 'airports.csv', 'w', newline='', encoding='utf-8') as fp:
        w = csv.writer(fp, quoting=csv.QUOTE_ALL)
        w.writerow(cols)
        for i, (code, (lat, lon, ctry)) in enumerate(AIRPORTS.items()):
            w.writerow([str(1000 + i), 'X' + code, 'large_airport', code + ' Airport', repr(lat), repr(lon),
                        '' if i % 7 == 0 else str(10 * i), 'NA', ctry, ctry + '-X', '' if i % 5 == 0 else code + ' City',
                        'yes', 'X' + code, code, '', '', '', '', ''])
        # an entry without IATA code must be ignored by the reader
        w.writerow(['9', 'XNOI', 'small_airport', 'No IATA', '10.0', '10.0', '5', 'NA', 'US', 'US-X', '', 'no', '', '', '', '',
                    '', '', ''])


def setup():
    """Load AEIC against a generated world airport table (in a temp dir) and silence logging."""
    if _state.get('ready'):
        return _state
    import warnings

    warnings.filterwarnings('ignore')
    logging.disable(logging.CRITICAL)
    tmp = Path(tempfile.mkdtemp(prefix='c13_'))
    _write_airports_csv(tmp)
    os.environ['AEIC_PATH'] = str(REPO / 'tests' / 'data')
    src = str(REPO / 'src')
    if src not in sys.path:
        sys.path.insert(0, src)
    from AEIC.config import Config

    try:
        Config.reset()
    except Exception:
        pass
    Config.load(data_path_overrides=[tmp])
    import AEIC.utils.airports as ap

    ap._airports = None
    ap._countries = None
    from pyproj import Geod
    from timezonefinder import TimezoneFinder

    _state.update(ready=True, tmp=tmp, Config=Config, ap=ap, geod=Geod(ellps='WGS84'), tf=TimezoneFinder(), ndb=0,
                  tzcache={}, offcache={}, zones={})
    return _state


def teardown():
    if not _state.get('ready'):
        return
    gc.collect()
    shutil.rmtree(_state['tmp'], ignore_errors=True)
    try:
        _state['Config'].reset()
    except Exception:
        pass
    _state['ap']._airports = None
    _state['ap']._countries = None
    _state.clear()


# ------------------------------------------------------------------------------------------------ oracles
def static_airport(code: str):
    """(lat, lon) of the static airport table as the implementation reads it, or None."""
    a = _state['ap'].airport(code)
    if not a:
        return None
    return (float(a.latitude), float(a.longitude))


def zone_of(code: str) -> str | None:
    c = _state['tzcache']
    if code not in c:
        a = static_airport(code)
        c[code] = None if a is None else _state['tf'].certain_timezone_at(lat=a[0], lng=a[1])
    return c[code]


def zinfo(tz: str) -> ZoneInfo:
    z = _state['zones'].get(tz)
    if z is None:
        z = _state['zones'][tz] = ZoneInfo(tz)
    return z


_E0 = datetime(1970, 1, 1)


def offset_of(tz: str, local_s: int) -> int:
    """UTC offset (s) zoneinfo gives the naive local time `local_s` (s since 1970-01-01T00:00 local), fold=0."""
    k = (tz, local_s)
    c = _state['offcache']
    v = c.get(k)
    if v is None:
        v = c[k] = int((_E0 + timedelta(seconds=local_s)).replace(tzinfo=zinfo(tz)).utcoffset().total_seconds())
    return v


def true_gc_m(o, d) -> float:
    """geodesic distance in metres, pyproj argument order lon, lat, lon, lat"""
    return float(_state['geod'].inv(o[1], o[0], d[1], d[0])[2])


def swapped_gc_m(o, d) -> float:
    return float(_state['geod'].inv(o[0], o[1], d[0], d[1])[2])


# ------------------------------------------------------------------------------------------------ own parsing (spec side)
def _int(s):
    return int(s)


def own_filter(raw) -> str | None:
    if raw['carrier'] == '\x1a':
        return 'eof'
    if raw['service'] in ('V', 'U'):
        return 'service'
    try:
        st = _int(raw['stops'])
    except Exception:
        return 'malformed'
    if st != 0:
        return 'stops'
    if raw['operating'] == 'N':
        return 'operating'
    if raw['genacft'] in EXCLUDE_EQUIPMENT:
        return 'equipment'
    return None


def own_parse(raw) -> dict | None:
    try:
        def mk_date(t):
            if t in ('00000000', '99999999'):
                return None
            n = _int(t)
            return date(n // 10000, n % 10000 // 100, n % 100)

        def mk_time(t):
            n = _int(t)
            return n // 100 * 60 + n % 100

        ad = raw['arrday']
        arrday = -1 if ad == 'P' else 0 if ad in (' ', '') else _int(ad)
        return dict(fltno=0 if raw['fltno'] == '' else _int(raw['fltno']), dep=mk_time(raw['deptim']),
                    arr=mk_time(raw['arrtim']), arrday=arrday,
                    days=[k for k in range(1, 8) if str(k) in raw['days']], distance=_int(raw['distance']),
                    seats=_int(raw['seats']), efffrom=mk_date(raw['efffrom']), effto=mk_date(raw['effto']))
    except Exception:
        return None


COARSE = {'eof': 'filtered', 'service': 'filtered', 'stops': 'filtered', 'operating': 'filtered', 'equipment': 'filtered',
          'malformed': 'malformed', 'imported': 'imported', 'unknown_airport': 'unknown_airport',
          'zero_distance': 'zero_distance', 'suspicious_distance': 'suspicious_distance'}
WARN2OUT = {'UNKNOWN_AIRPORT': 'unknown_airport', 'ZERO_DISTANCE': 'zero_distance',
            'SUSPICIOUS_DISTANCE': 'suspicious_distance', 'TIME_MISORDERING': 'time_misordering'}

STATUTE_MILES_TO_KM = 1.609344  # spec constant (international mile)


def spec_outcome(raw) -> str:
    """what the property says should happen to the row (documented reasons only)"""
    f = own_filter(raw)
    if f == 'malformed':
        return 'malformed'
    if f is not None:
        return 'filtered'
    p = own_parse(raw)
    if p is None:
        return 'malformed'
    o = static_airport(raw['depapt'])
    d = static_airport(raw['arrapt'])
    if o is None or d is None:
        return 'unknown_airport'
    gc_km = true_gc_m(o, d) / 1000.0
    given = p['distance'] * STATUTE_MILES_TO_KM
    if gc_km < 1.0:
        return 'zero_distance'
    if given > 0:
        ad = abs(given - gc_km)
        if ad > 50.0 and 100 * ad / gc_km > 10.0:
            return 'suspicious_distance'
    return 'imported'


def spec_instances(raw, p, year):
    """(kept rows [(dep, arr, day)], any_misordered, gap_free_flags) from datetime + zoneinfo only"""
    tzo, tzd = zinfo(zone_of(raw['depapt'])), zinfo(zone_of(raw['arrapt']))
    a = p['efffrom'] or date(year, 1, 1)
    b = p['effto'] or date(year, 12, 31)
    kept, dropped, checks = [], 0, []
    cur = a
    while cur <= b:
        if cur.isoweekday() in p['days']:
            base = datetime(cur.year, cur.month, cur.day)
            ldep = base + timedelta(minutes=p['dep'])
            larr = base + timedelta(days=p['arrday'], minutes=p['arr'])
            dep = int(ldep.replace(tzinfo=tzo).timestamp())
            arr = int(larr.replace(tzinfo=tzd).timestamp())
            if arr < dep:
                dropped += 1
            else:
                kept.append((dep, arr, dep // 86400))
                checks.append((dep, ldep, tzo, arr, larr, tzd))
        cur += timedelta(days=1)
    return kept, dropped, checks


# ------------------------------------------------------------------------------------------------ implementation side
FLIGHT_COLS = ['id', 'carrier', 'flight_number', 'origin', 'destination', 'day_of_week_mask', 'departure_time', 'arrival_time',
               'arrival_day_offset', 'service_type', 'aircraft_type', 'engine_type', 'distance', 'seat_capacity', 'effective_from',
               'effective_to', 'number_of_flights', 'od_pair']


def run_impl(case) -> dict:
    """Import the rows of `case` with the real code; returns outcomes per row and table snapshots after every row."""
    from AEIC.missions.oag import CSVEntry, OAGDatabase

    st = _state
    st['ndb'] += 1
    path = st['tmp'] / f'db{st["ndb"]}.sqlite'
    res = dict(outcomes=[], raised=None, per_row=[])
    db = OAGDatabase(str(path), case['year'])
    try:
        cur = db._conn.cursor()

        def counts():
            return (cur.execute('SELECT COUNT(*) FROM flights').fetchone()[0],
                    cur.execute('SELECT COUNT(*) FROM schedules').fetchone()[0])

        for i, raw in enumerate(case['rows']):
            line = raw['line']
            row = {k: v for k, v in raw.items() if k != 'line'}
            before = counts()
            try:
                valid = CSVEntry.is_row_valid(row)
            except Exception:
                valid = None
            e = CSVEntry.from_csv_row(row, line)
            if e is None:
                out = 'malformed' if valid in (None, True) else 'filtered'
            else:
                try:
                    ok = db.add(e, commit=False)
                except Exception as ex:  # the call raised: stop, as convert_oag_data would
                    res['raised'] = type(ex).__name__
                    res['raised_row'] = i
                    res['per_row'].append(dict(before=before, after=counts()))
                    break
                if ok:
                    out = 'imported'
                else:
                    w = db.warnings.get(line)
                    out = WARN2OUT.get(w.warn_type.name, 'skipped_no_warning') if w is not None else 'skipped_no_warning'
            res['outcomes'].append(out)
            res['per_row'].append(dict(before=before, after=counts()))
        res['airports'] = [list(r) for r in cur.execute('SELECT id, iata_code, latitude, longitude FROM airports ORDER BY id')]
        res['flights'] = [dict(zip(FLIGHT_COLS, r)) for r in cur.execute(f'SELECT {", ".join(FLIGHT_COLS)} FROM flights ORDER BY id')]
        res['scheds'] = [list(r) for r in cur.execute(
            'SELECT departure_timestamp, arrival_timestamp, day, flight_id FROM schedules ORDER BY id')]
        res['warnings'] = {int(k): [w.warn_type.name, (w.data or {}).get('unknown_airport', '') if w.warn_type.name == 'UNKNOWN_AIRPORT' else '']
                           for k, w in db.warnings.items()}
        res['unknown'] = sorted(db.unknown_airports)
        res['zones'] = {k: v.timezone for k, v in db._airport_cache.items()}
    finally:
        try:
            db._conn.rollback()
        except Exception:
            pass
        db.close()
        try:
            path.unlink()
        except OSError:
            pass
    return res


# ------------------------------------------------------------------------------------------------ model side
def model_op(case, variant=None) -> dict:
    """Build the `c13.import` op with all oracle values the model can ask for."""
    codes = []
    for raw in case['rows']:
        for c in (raw['depapt'], raw['arrapt']):
            if c not in codes:
                codes.append(c)
    aps = []
    for c in codes:
        a = static_airport(c)
        if a is not None:
            aps.append(dict(code=c, lat=f2u(a[0]), lon=f2u(a[1]), tz=zone_of(c)))
    geod, seen = [], set()
    off: dict[str, dict[int, int]] = {}
    for raw in case['rows']:
        o, d = static_airport(raw['depapt']), static_airport(raw['arrapt'])
        if o is None or d is None:
            continue
        key = (raw['depapt'], raw['arrapt'])
        if key not in seen:
            seen.add(key)
            geod.append([f2u(o[1]), f2u(o[0]), f2u(d[1]), f2u(d[0]), f2u(true_gc_m(o, d))])
            geod.append([f2u(o[0]), f2u(o[1]), f2u(d[0]), f2u(d[1]), f2u(swapped_gc_m(o, d))])
        if own_filter(raw) is not None:
            continue
        p = own_parse(raw)
        if p is None:
            continue
        a = (p['efffrom'] or date(case['year'], 1, 1)).toordinal() - 719163
        b = (p['effto'] or date(case['year'], 12, 31)).toordinal() - 719163
        tzo, tzd = zone_of(raw['depapt']), zone_of(raw['arrapt'])
        to, td = off.setdefault(tzo, {}), off.setdefault(tzd, {})
        for n in range(a, b + 1):
            if ((n + 3) % 7 + 1) not in p['days']:
                continue
            ld = n * 86400 + p['dep'] * 60
            la = (n + p['arrday']) * 86400 + p['arr'] * 60
            if ld not in to:
                to[ld] = offset_of(tzo, ld)
            if la not in td:
                td[la] = offset_of(tzd, la)
    op = dict(op='c13.import', year=case['year'], airports=aps, geod=geod,
              off=[dict(tz=tz, table=[[t, o] for t, o in tab.items()]) for tz, tab in off.items()],
              rows=case['rows'])
    if variant is not None:
        op['variant'] = variant
    return op


def compare(ctx, case, impl, mod) -> list[str]:
    """differences between the implementation's tables and the model's"""
    diffs = []
    m_out = [COARSE[o] for o in mod['outcomes']]
    i_out = ['imported' if o == 'time_misordering' else o for o in impl['outcomes']]
    if m_out != i_out:
        diffs.append(f'outcomes impl={i_out} model={m_out}')
    if (impl['raised'] is None) != (mod['raised'] is None):
        diffs.append(f'raised impl={impl["raised"]} model={mod["raised"]}')
    if impl['raised'] is not None:
        return diffs  # tables after an exception are transaction debris; not compared
    ia = [[r[0], r[1], f2u(r[2]), f2u(r[3])] for r in impl['airports']]
    ma = [[r[0], r[1], r[2], r[3]] for r in mod['airports']]
    if ia != ma:
        diffs.append(f'airports impl={ia} model={ma}')
    for r in mod['airports']:
        if impl['zones'].get(r[1]) != r[4]:
            diffs.append(f'zone of {r[1]} impl={impl["zones"].get(r[1])} oracle={r[4]}')
    if len(impl['flights']) != len(mod['flights']):
        diffs.append(f'flight count impl={len(impl["flights"])} model={len(mod["flights"])}')
    else:
        for fi, fm in zip(impl['flights'], mod['flights']):
            want = dict(id=fm['id'], carrier=fm['carrier'], flight_number=str(fm['fltno']), origin=fm['origin'],
                        destination=fm['dest'], day_of_week_mask=fm['dow_mask'], departure_time=fm['dep_time'],
                        arrival_time=fm['arr_time'], arrival_day_offset=fm['arr_day'], service_type=fm['service'],
                        aircraft_type=fm['aircraft'], engine_type='', seat_capacity=fm['seats'],
                        effective_from='%04d-%02d-%02d' % tuple(fm['eff_from']), effective_to='%04d-%02d-%02d' % tuple(fm['eff_to']),
                        number_of_flights=fm['count'], od_pair=fm['od_pair'])
            for k, v in want.items():
                got = fi[k]
                if k == 'flight_number':
                    got = str(got)
                if got != v:
                    diffs.append(f'flight {fm["id"]} {k} impl={got!r} model={v!r}')
            if f2u(float(fi['distance'])) != fm['distance']:
                diffs.append(f'flight {fm["id"]} distance impl={fi["distance"]!r} model={u2f(fm["distance"])!r}')
    if impl['scheds'] != mod['scheds']:
        n = next((k for k, (x, y) in enumerate(zip(impl['scheds'], mod['scheds'])) if x != y), min(len(impl['scheds']), len(mod['scheds'])))
        diffs.append(f'schedules differ (impl {len(impl["scheds"])} rows, model {len(mod["scheds"])}); first at {n}: '
                     f'impl={impl["scheds"][n] if n < len(impl["scheds"]) else None} model={mod["scheds"][n] if n < len(mod["scheds"]) else None}')
    mw = {int(w[0]): [w[1], w[2]] for w in mod['warnings']}
    if mw != impl['warnings']:
        diffs.append(f'warnings impl={impl["warnings"]} model={mw}')
    if sorted(mod['unknown']) != impl['unknown']:
        diffs.append(f'unknown airports impl={impl["unknown"]} model={sorted(mod["unknown"])}')
    for s in mod['scheds']:
        if abs(s[0]) > 10 ** 11 or abs(s[1]) > 10 ** 11:
            raise RuntimeError('harness bug: offset oracle table misses an entry the model asked for')
    return diffs


# ------------------------------------------------------------------------------------------------ clauses
def eval_clauses(case, impl) -> list[tuple[str, int, str]]:
    """Property clauses on the implementation's output. Returns (clause, row index, detail) failures."""
    fails = []
    year = case['year']
    nflights = 0
    sched_by_f: dict[int, list] = {}
    for s in impl.get('scheds', []):
        sched_by_f.setdefault(s[3], []).append(tuple(s[:3]))
    for i, raw in enumerate(case['rows']):
        spec = spec_outcome(raw)
        if impl['raised'] is not None and i == impl.get('raised_row'):
            fails.append(('no_raise', i, f'add raised {impl["raised"]} (spec outcome {spec})'))
            if spec == 'imported':
                fails.append(('plausible_never_dropped', i, f'plausible row not imported: add raised {impl["raised"]}'))
            break
        if i >= len(impl['outcomes']):
            break
        out = impl['outcomes'][i]
        pr = impl['per_row'][i]
        df, ds = pr['after'][0] - pr['before'][0], pr['after'][1] - pr['before'][1]
        if out != 'imported':
            if (df, ds) != (0, 0):
                fails.append(('skipped_leaves_no_rows', i, f'outcome {out} but {df} flight / {ds} schedule rows added'))
            if spec == 'imported':
                fails.append(('plausible_never_dropped', i, f'plausible row skipped as {out}'))
            elif out != spec and not (out == 'malformed' and spec == 'filtered') and out != 'filtered':
                fails.append(('skipped_only_for_documented_reason', i, f'skipped as {out}, documented reason would be {spec}'))
            elif out == 'skipped_no_warning':
                fails.append(('skipped_only_for_documented_reason', i, 'add returned False without recording a reason'))
            if out == 'filtered' and spec not in ('filtered', 'malformed'):
                fails.append(('skipped_only_for_documented_reason', i, f'filtered although no filter code applies (spec {spec})'))
            continue
        # imported
        nflights += 1
        if spec != 'imported':
            fails.append(('skipped_only_for_documented_reason', i, f'row imported although the documented rule says {spec}'))
            continue
        if df != 1:
            fails.append(('one_flight_record', i, f'{df} flight records created'))
            continue
        if impl['raised'] is not None:
            continue  # tables were not read back
        p = own_parse(raw)
        if nflights - 1 >= len(impl['flights']):
            # `add` reported this row as imported (and the row counts grew at that moment), but at the end of the batch the flights
            # table holds fewer records than rows imported: something later in the batch removed it
            fails.append(('plausible_never_dropped', i, f'row reported as imported, but the batch ends with only {len(impl["flights"])} flight '
                          f'record(s) for {nflights} imported row(s): an imported row was removed later in the batch'))
            continue
        f = impl['flights'][nflights - 1]
        o_id = next((r[0] for r in impl['airports'] if r[1] == raw['depapt']), None)
        d_id = next((r[0] for r in impl['airports'] if r[1] == raw['arrapt']), None)
        a = p['efffrom'] or date(year, 1, 1)
        b = p['effto'] or date(year, 12, 31)
        want = dict(carrier=raw['carrier'], flight_number=str(p['fltno']), origin=o_id, destination=d_id,
                    day_of_week_mask=sum(1 << (k - 1) for k in p['days']), departure_time=p['dep'], arrival_time=p['arr'],
                    arrival_day_offset=p['arrday'], service_type=raw['service'], aircraft_type=raw['inpacft'],
                    seat_capacity=p['seats'], od_pair=min(raw['depapt'], raw['arrapt']) + max(raw['depapt'], raw['arrapt']))
        for k, v in want.items():
            got = str(f[k]) if k == 'flight_number' else f[k]
            if got != v:
                fails.append(('flight_fields', i, f'{k}: stored {got!r}, row says {v!r}'))
        if not math.isclose(float(f['distance']), p['distance'] * STATUTE_MILES_TO_KM, rel_tol=1e-12, abs_tol=1e-9):
            fails.append(('flight_fields', i, f'distance stored {f["distance"]!r}, row says {p["distance"]} mi'))
        if (f['effective_from'], f['effective_to']) != (a.isoformat(), b.isoformat()):
            fails.append(('open_ended_means_year_bounds' if (p['efffrom'] is None or p['effto'] is None) else 'flight_fields', i,
                          f'effective range stored {f["effective_from"]}..{f["effective_to"]}, expected {a}..{b}'))
        kept, dropped, checks = spec_instances(raw, p, year)
        got = sched_by_f.get(f['id'], [])
        if sorted(g[:2] for g in got) == sorted(k[:2] for k in kept) and sorted(got) != sorted(kept):
            fails.append(('day_column_is_utc_departure_day', i, f'day column {sorted(got)[:3]} vs floor(departure/86400) {sorted(kept)[:3]}'))
        elif sorted(got) != sorted(kept):
            miss = sorted(set(kept) - set(got))[:3]
            extra = sorted(set(got) - set(kept))[:3]
            cl = 'one_instance_per_matching_date'
            if len(got) == len(kept) and [g[2] for g in sorted(got)] == [k[2] for k in sorted(kept)] and \
                    all(abs(g[0] - k[0]) <= 2 * 86400 for g, k in zip(sorted(got), sorted(kept))):
                cl = 'utc_instants'
            if (p['efffrom'] is None or p['effto'] is None) and cl != 'utc_instants':
                cl = 'open_ended_means_year_bounds'
            fails.append((cl, i, f'{len(got)} instances stored, {len(kept)} implied; missing {miss} unexpected {extra}'))
        if len(set(got)) != len(got):
            fails.append(('one_instance_per_matching_date', i, 'duplicate instances'))
        if any(g[1] < g[0] for g in got):
            fails.append(('misordered_dropped_with_warning', i, 'an instance with arrival before departure was stored'))
        # warnings are one-per-line (a dict); the generator sometimes reuses a line number, then the entry may belong to
        # another row and only the model correspondence (which replays the overwrite order) is meaningful
        unique_line = sum(1 for r2 in case['rows'] if r2['line'] == raw['line']) == 1
        w = impl['warnings'].get(raw['line']) if unique_line else None
        if not unique_line:
            dropped = 0
        if dropped and (w is None or w[0] != 'TIME_MISORDERING'):
            fails.append(('misordered_dropped_with_warning', i, f'{dropped} mis-ordered instances implied but warning is {w}'))
        if not dropped and w is not None and w[0] == 'TIME_MISORDERING':
            fails.append(('misordered_dropped_with_warning', i, 'mis-ordering warning without a mis-ordered instance'))
        if f['number_of_flights'] != len(got):
            fails.append(('count_field_eq_instances', i, f'number_of_flights={f["number_of_flights"]} but {len(got)} instances stored'))
        # stored UTC instants, converted back to the zone, show the stated local wall time (skipped inside DST gaps)
        gset = set(got)
        for dep, ldep, tzo, arr, larr, tzd in checks[:400]:
            if (dep, arr, dep // 86400) not in gset:
                continue
            for ts, loc, tz in ((dep, ldep, tzo), (arr, larr, tzd)):
                back = datetime.fromtimestamp(ts, tz).replace(tzinfo=None)
                exists = datetime.fromtimestamp(loc.replace(tzinfo=tz).timestamp(), tz).replace(tzinfo=None) == loc
                if exists and back != loc:
                    fails.append(('utc_instants', i, f'stored {ts} is {back} in {tz.key}, row says {loc}'))
                    break
    return fails


# ------------------------------------------------------------------------------------------------ generators
def _hhmm(minutes: int) -> str:
    minutes %= 1440
    return '%02d%02d' % (minutes // 60, minutes % 60)


def _ymd(d: date) -> str:
    return '%04d%02d%02d' % (d.year, d.month, d.day)


def transitions(tz: str, year: int) -> list[date]:
    """local dates in `year` on which the zone's offset changes"""
    key = ('tr', tz, year)
    c = _state['offcache']
    if key in c:
        return c[key]
    z = zinfo(tz)
    res = []
    d = date(year, 1, 1)
    prev = datetime(d.year, d.month, d.day, 12, tzinfo=z).utcoffset()
    while d.year == year:
        cur = datetime(d.year, d.month, d.day, 12, tzinfo=z).utcoffset()
        if cur != prev:
            res.append(d)       # the change happened between noon of d-1 and noon of d
            res.append(d - timedelta(days=1))
        prev = cur
        d += timedelta(days=1)
    c[key] = res
    return res


def base_row(rng, line, dep, arr, year) -> dict:
    o, d = static_airport(dep), static_airport(arr)
    gc_km = true_gc_m(o, d) / 1000.0 if o and d else 1000.0
    if not math.isfinite(gc_km):
        gc_km = 1000.0
    miles = int(round(gc_km / STATUTE_MILES_TO_KM))
    depmin = int(rng.integers(0, 1440))
    dur = int(gc_km / 13.0) + 35  # ~780 km/h + taxi
    arrday, arrmin = 0, depmin + dur
    zo, zd = zone_of(dep) if o else None, zone_of(arr) if d else None
    if zo and zd:
        ref = datetime(year, 6, 15, 12)
        shift = int((ref.replace(tzinfo=zinfo(zd)).utcoffset() - ref.replace(tzinfo=zinfo(zo)).utcoffset()).total_seconds() // 60)
        arrmin += shift
    arrday = arrmin // 1440
    arrmin %= 1440
    ad = {-1: 'P', 0: '', 1: '1', 2: '2'}.get(arrday, str(arrday))
    a = date(year, 1, 1) + timedelta(days=int(rng.integers(0, 330)))
    b = a + timedelta(days=int(rng.integers(0, 30)))
    days = ''.join(str(k) if rng.random() < 0.6 else ' ' for k in range(1, 8))
    return dict(line=line, carrier=str(rng.choice(CARRIERS)), fltno=str(int(rng.integers(1, 9999))), depapt=dep, arrapt=arr,
                deptim=_hhmm(depmin), arrtim=_hhmm(arrmin), arrday=ad, days=days, stops='00',
                genacft=str(rng.choice(EQUIP)), inpacft=str(rng.choice(EQUIP)), service=str(rng.choice(['J', 'J', 'S', 'F', 'C', 'G'])),
                seats='%04d' % int(rng.integers(0, 500)), efffrom=_ymd(a), effto=_ymd(b), distance='%07d' % miles,
                operating=str(rng.choice(['', 'O', 'Y'])), longest=str(rng.choice(['L', 'S', ''])))


REAL = [c for c in AIRPORTS if c not in ('JFX', 'LHX', 'SIA', 'SIB')]


def gen_row(rng, line, year, stream) -> dict:
    dep, arr = (str(x) for x in rng.choice(REAL, size=2, replace=False))
    if rng.random() < 0.25:  # short European / US hops, where +-50 km matters and |lon| <= 90
        dep, arr = (str(x) for x in rng.choice(['LHR', 'CDG', 'AMS', 'BRU', 'FRA', 'LIS', 'JFK', 'BOS', 'ORD'], size=2, replace=False))
    r = base_row(rng, line, dep, arr, year)
    o, d = static_airport(dep), static_airport(arr)
    gc_km = true_gc_m(o, d) / 1000.0
    u = rng.random()
    if stream == 'valid':
        # distance around the rule
        k = int(rng.integers(0, 12))
        if k == 0:
            miles = 0
        elif k == 1:
            miles = int((gc_km + 49.0) / STATUTE_MILES_TO_KM)
        elif k == 2:
            miles = int((gc_km + 52.0) / STATUTE_MILES_TO_KM) + 1
        elif k == 3:
            miles = max(0, int((gc_km - 49.0) / STATUTE_MILES_TO_KM) + 1)
        elif k == 4:
            miles = max(0, int((gc_km - 52.0) / STATUTE_MILES_TO_KM))
        elif k == 5:
            miles = int(gc_km * 1.099 / STATUTE_MILES_TO_KM)
        elif k == 6:
            miles = int(gc_km * 1.101 / STATUTE_MILES_TO_KM) + 1
        elif k == 7:
            miles = int(gc_km * 0.901 / STATUTE_MILES_TO_KM) + 1
        elif k == 8:
            miles = int(gc_km * 0.899 / STATUTE_MILES_TO_KM)
        elif k == 9:
            miles = int(gc_km * float(rng.uniform(0.3, 2.5)) / STATUTE_MILES_TO_KM)
        else:
            miles = int(round(gc_km / STATUTE_MILES_TO_KM)) + int(rng.integers(-3, 4))
        r['distance'] = '%07d' % max(0, miles)
        # range
        k = int(rng.integers(0, 13))
        a = date(year, 1, 1) + timedelta(days=int(rng.integers(0, 365)))
        if k == 10:   # starts in the year BEFORE the data year, open end (= end of the data year, not of the starting year)
            r['efffrom'] = _ymd(date(year - 1, 12, 31) - timedelta(days=int(rng.integers(0, 40))))
            r['effto'] = str(rng.choice(['00000000', '99999999']))
        elif k == 11:  # open start (= start of the data year), ends in the year AFTER the data year
            r['efffrom'] = str(rng.choice(['00000000', '99999999']))
            r['effto'] = _ymd(date(year + 1, 1, 1) + timedelta(days=int(rng.integers(0, 40))))
        elif k == 12:  # starts before the data year, explicit end inside it
            r['efffrom'] = _ymd(date(year - 1, 12, 31) - timedelta(days=int(rng.integers(0, 20))))
            r['effto'] = _ymd(date(year, 1, 1) + timedelta(days=int(rng.integers(0, 60))))
        elif k == 0:
            r['efffrom'], r['effto'] = _ymd(a), _ymd(a)
        elif k == 1:
            r['efffrom'] = str(rng.choice(['00000000', '99999999']))
            r['effto'] = _ymd(date(year, 1, 1) + timedelta(days=int(rng.integers(0, 90))))
        elif k == 2:
            r['effto'] = str(rng.choice(['00000000', '99999999']))
            r['efffrom'] = _ymd(date(year, 12, 31) - timedelta(days=int(rng.integers(0, 90))))
        elif k == 3:
            r['efffrom'], r['effto'] = '00000000', '99999999'
        elif k == 4:
            r['efffrom'], r['effto'] = _ymd(a), _ymd(a - timedelta(days=int(rng.integers(1, 5))))
        elif k == 5:
            r['efffrom'], r['effto'] = _ymd(date(year, 1, 1)), _ymd(date(year, 12, 31))
        elif k == 6:  # spans a year end
            r['efffrom'], r['effto'] = _ymd(date(year, 12, 20)), _ymd(date(year + 1, 1, 12))
        elif k == 7:  # around the leap day
            r['efffrom'], r['effto'] = _ymd(date(year, 2, 25)), _ymd(date(year, 3, 3))
        # weekday set
        k = int(rng.integers(0, 8))
        if k == 0:
            r['days'] = '1234567'
        elif k == 1:
            r['days'] = ''
        elif k == 2:
            r['days'] = '      ' + str(int(rng.integers(1, 8)))
        # arrival day / times
        if u < 0.12:
            r['arrday'] = str(rng.choice(['P', '', ' ', '1', '2']))
            r['arrtim'] = _hhmm(int(rng.integers(0, 1440)))
        elif u < 0.2:
            r['deptim'] = str(rng.choice(['0000', '2359', '1200', '0001']))
        elif u < 0.32:
            # arrival instant equal to the departure instant (the mis-ordering test is strict), or one minute either side
            zo, zd = zinfo(zone_of(dep)), zinfo(zone_of(arr))
            try:
                a0 = date(int(r['efffrom'][:4]), int(r['efffrom'][4:6]), int(r['efffrom'][6:]))
            except ValueError:
                a0 = date(year, 6, 15)
            ref = datetime(a0.year, a0.month, a0.day, 12)
            shift = int((ref.replace(tzinfo=zd).utcoffset() - ref.replace(tzinfo=zo).utcoffset()).total_seconds() // 60)
            dm = int(r['deptim'][:2]) * 60 + int(r['deptim'][2:])
            am = dm + shift + int(rng.choice([0, 0, 1, -1]))
            r['arrday'] = {-1: 'P', 0: '', 1: '1', 2: '2'}.get(am // 1440, '')
            r['arrtim'] = _hhmm(am)
    elif stream == 'dst':
        zo, zd = zone_of(dep), zone_of(arr)
        tr = transitions(zo, year) + transitions(zd, year)
        if tr:
            t = tr[int(rng.integers(0, len(tr)))]
            a = t - timedelta(days=int(rng.integers(0, 3)))
            b = t + timedelta(days=int(rng.integers(0, 3)))
            r['efffrom'], r['effto'] = _ymd(a), _ymd(b)
            r['days'] = '1234567'
            hot = ['0000', '0030', '0059', '0100', '0130', '0159', '0200', '0215', '0230', '0245', '0259', '0300', '0330',
                   '0345', '0400', '2330', '2359']
            if rng.random() < 0.7:
                r['deptim'] = str(rng.choice(hot))
            if rng.random() < 0.5:
                r['arrtim'] = str(rng.choice(hot))
                r['arrday'] = str(rng.choice(['', '1', '1', '2']))
    elif stream == 'skip':
        k = int(rng.integers(0, 16))
        if k == 0:
            r['service'] = str(rng.choice(['V', 'U']))
        elif k == 1:
            r['stops'] = str(rng.choice(['01', '1', '02']))
        elif k == 2:
            r['operating'] = 'N'
        elif k == 3:
            r['genacft'] = str(rng.choice(EXCLUDE_EQUIPMENT))
        elif k == 4:
            r['carrier'] = '\x1a'
        elif k == 5:
            r['depapt'] = str(rng.choice(UNKNOWN_CODES))
        elif k == 6:
            r['arrapt'] = str(rng.choice(UNKNOWN_CODES))
        elif k == 7:
            r['depapt'], r['arrapt'] = 'QPX', 'ZZ9'
        elif k == 8:
            r['arrapt'] = r['depapt']
        elif k == 9:
            pair = [('JFK', 'JFX'), ('LHX', 'LHR'), ('SIN', 'SIA'), ('SIN', 'SIB'), ('SIB', 'SIA')][int(rng.integers(0, 5))]
            r['depapt'], r['arrapt'] = pair
            r['distance'] = str(rng.choice(['0000000', '0000001', '0000040']))
        elif k == 10:
            f = str(rng.choice(['seats', 'deptim', 'arrtim', 'distance', 'stops', 'efffrom', 'effto', 'arrday', 'fltno']))
            r[f] = str(rng.choice(['', 'abc', '12a', '1.5']))
            if f == 'fltno' and r[f] == '':
                r[f] = 'x'
        elif k == 11:
            r['efffrom'] = str(rng.choice(['20190231', '20191301', '20190100', '20190431', '00001201', '21000229']))
        elif k == 12:
            r['distance'] = '%07d' % int(gc_km * float(rng.choice([0.2, 0.5, 3.0])) / STATUTE_MILES_TO_KM)
        elif k == 13:
            r['genacft'] = str(rng.choice(['BU', 'TRNX', 'bus', 'RF']))   # near-misses of the exclusion list: kept
            r['service'] = str(rng.choice(['v', 'u', 'VU', 'W']))
        elif k == 14:
            r['fltno'] = ''
            r['stops'] = str(rng.choice(['0', '00', ' 0']))
        else:
            r['deptim'], r['arrtim'] = str(rng.choice(['2460', '0099', '2500'])), str(rng.choice(['2460', '0075', '0000']))
    return r


def gen_case(rng, k) -> dict:
    year = int(YEARS[int(rng.integers(0, len(YEARS)))])
    n = int(rng.integers(4, 11))
    rows = []
    line = 2
    for _ in range(n):
        u = rng.random()
        stream = 'valid' if u < 0.55 else 'dst' if u < 0.75 else 'skip'
        r = gen_row(rng, line, year, stream)
        r['stream'] = stream
        rows.append(r)
        line += int(rng.integers(1, 3)) if rng.random() < 0.95 else 0  # occasionally two rows share a line number
    streams = [r.pop('stream') for r in rows]
    return dict(type='db', year=year, rows=rows, streams=streams, k=k)


# ------------------------------------------------------------------------------------------------ case evaluation
def row_key(case, i):
    r = case['rows'][i]
    return json.dumps([case['year']] + [r[k] for k in sorted(r) if k != 'line'])


def single_row_case(case, i):
    return dict(type='db', year=case['year'], rows=[dict(case['rows'][i])])


def models_for(ctx, cases):
    """intended and as-is (open finding) model results for a list of db cases: [(mod_intended, mod_current)]"""
    ops = []
    for c in cases:
        ops.append(model_op(c, V_INTENDED))
        ops.append(model_op(c, V_CURRENT))
    outs = ctx.driver.outs(ops)
    return [(outs[2 * k], outs[2 * k + 1]) for k in range(len(cases))]


def attribute(case, impl, fails, mods):
    """attach the open finding to exactly those clause failures the as-is model predicts for this input:
    the two model variants decide the row differently and the implementation does what the as-is variant does"""
    res = []
    for clause, i, detail in fails:
        fid = None
        if mods is not None and clause in DIST_CLAUSES and impl['raised'] is None:
            mi, mc = mods
            if i < len(mi['outcomes']) and i < len(mc['outcomes']) and i < len(impl['outcomes']):
                a, b = COARSE[mi['outcomes'][i]], COARSE[mc['outcomes'][i]]
                got = 'imported' if impl['outcomes'][i] == 'time_misordering' else impl['outcomes'][i]
                if a != b and got == b:
                    fid = FID
        res.append((clause, i, detail, fid))
    return res


def evaluate_db(ctx, case, mods, register=True):
    """run the implementation on one db case; compare with the intended model, else with the as-is model of the open
    finding; evaluate the clauses on the implementation's output"""
    impl = run_impl(case)
    fails = attribute(case, impl, eval_clauses(case, impl), mods)
    diffs = []
    if mods is not None:
        d_int = compare(ctx, case, impl, mods[0])
        if not d_int:
            ctx.count('db_agrees:intended')
        else:
            d_cur = compare(ctx, case, impl, mods[1])
            if not d_cur:
                ctx.count('db_agrees:as_is_only')
            else:
                diffs = ['vs as-is model: ' + d for d in d_cur[:2]] + ['vs intended model: ' + d for d in d_int[:2]]
    if register:
        for i, out in enumerate(impl['outcomes']):
            nt = out not in ('filtered',) and not (out == 'imported' and impl['per_row'][i]['after'][1] == impl['per_row'][i]['before'][1])
            ctx.case(row_key(case, i), nontrivial=nt,
                     sample=dict(year=case['year'], row={k: case['rows'][i][k] for k in ('depapt', 'arrapt', 'deptim', 'arrtim', 'arrday', 'days', 'efffrom', 'effto', 'distance')},
                                 outcome=out, instances=impl['per_row'][i]['after'][1] - impl['per_row'][i]['before'][1]) if nt else None)
            ctx.count('outcome:' + out)
        if impl['raised']:
            ctx.count('outcome:raised:' + impl['raised'])
    return impl, fails, diffs


def report_fails(ctx, case, fails):
    """shrink each failing row to a single-row database when that still fails, then record (row decisions are stateless,
    so the attribution to the open finding carries over to the shrunk case)"""
    done = set()
    for clause, i, detail, fid in fails:
        if (clause, i) in done:
            continue
        done.add((clause, i))
        ctx.count(('known:' if fid else 'clause_fail:') + clause)
        small = single_row_case(case, i)
        try:
            impl2 = run_impl(small)
            f2 = [f for f in eval_clauses(small, impl2) if f[0] == clause]
        except Exception:
            f2 = []
        if f2:
            ctx.clause_fail(clause, dict(small, row_index=0), finding=fid, detail=f2[0][2])
        else:
            ctx.clause_fail(clause, dict(type='db', year=case['year'], rows=case['rows'], row_index=i), finding=fid, detail=detail)


def widen(ctx, rng, case, budget=40):
    """failing-input search around a diverging case: same airports, other ranges / distances / times"""
    found = 0
    for t in range(budget):
        i = int(rng.integers(0, len(case['rows'])))
        src = case['rows'][i]
        if static_airport(src['depapt']) is None or static_airport(src['arrapt']) is None or src['depapt'] == src['arrapt']:
            continue
        r = gen_row(rng, 2, case['year'], 'valid' if t % 2 else 'dst')
        keep = {k: r[k] for k in ('efffrom', 'effto', 'days', 'deptim', 'arrtim', 'arrday')}
        b = base_row(rng, 2, src['depapt'], src['arrapt'], case['year'])
        b.update(keep)
        if t % 3 == 0:
            b['distance'] = src['distance']
        c = dict(type='db', year=case['year'], rows=[b])
        try:
            mods = models_for(ctx, [c])[0]
        except LeanError:
            mods = None
        impl, fails, _ = evaluate_db(ctx, c, mods, register=False)
        ctx.count('widened_search_cases')
        if any(f[3] is None for f in fails):
            report_fails(ctx, c, [f for f in fails if f[3] is None])
            found += 1
            if found >= 3:
                break
    return found


# ------------------------------------------------------------------------------------------------ unit correspondences
def unit_calendar(ctx, rng, n):
    dates = []
    for _ in range(n):
        u = rng.random()
        y = int(rng.integers(1, 10000)) if u < 0.5 else int(rng.choice([1, 4, 100, 400, 1600, 1900, 1970, 2000, 2019, 2020, 2100, 2400, 9999, 0, 10000, -1]))
        m = int(rng.integers(1, 13)) if rng.random() < 0.9 else int(rng.choice([0, 13, -1]))
        d = int(rng.choice([1, 27, 28, 29, 30, 31, 32, 0])) if rng.random() < 0.6 else int(rng.integers(1, 29))
        dates.append([y, m, d])
    outs = ctx.driver.outs([dict(op='c13.calendar', dates=dates)])[0]
    for (y, m, d), o in zip(dates, outs):
        try:
            t = date(y, m, d)
        except ValueError:
            t = None
        ctx.count('calendar:' + ('valid' if t else 'invalid'))
        if o[0] != (t is not None):
            ctx.diverge('calendar.valid', dict(type='calendar', date=[y, m, d]), f'python valid={t is not None} model={o[0]}')
            continue
        if t is None:
            continue
        nx = None if t == date.max else t + timedelta(days=1)
        want = [t.toordinal(), t.toordinal() - 719163, t.isoweekday()]
        if o[1:4] != want or (nx is not None and o[4] != [nx.year, nx.month, nx.day]):
            ctx.diverge('calendar.ordinal', dict(type='calendar', date=[y, m, d]), f'python={want},{nx} model={o[1:]}')
    items = []
    for _ in range(n // 4):
        y = int(rng.integers(1, 9999))
        k = int(rng.choice([0, 30, 31, 58, 59, 60, 89, 90, 364])) if rng.random() < 0.5 else int(rng.integers(0, 365))
        items.append([y, k])
        if date(y, 12, 31).timetuple().tm_yday == 366:
            items.append([y, 365])
    outs = ctx.driver.outs([dict(op='c13.yearday', items=items)])[0]
    for (y, k), o in zip(items, outs):
        t = date(y, 1, 1) + timedelta(days=k)
        if o != [t.year, t.month, t.day]:
            ctx.diverge('calendar.yearday', dict(type='yearday', item=[y, k]), f'python={t} model={o}')


def unit_pandas_weekday(ctx, rng, n):
    """the implementation's own day iteration: pd.date_range + DayOfWeek.from_pandas vs the model's weekday of the day number"""
    import pandas as pd
    from AEIC.types import DayOfWeek

    dates = []
    for _ in range(n):
        y = int(rng.integers(1700, 2250))
        dates.append(date(y, 1, 1) + timedelta(days=int(rng.integers(0, 365))))
    outs = ctx.driver.outs([dict(op='c13.calendar', dates=[[t.year, t.month, t.day] for t in dates])])[0]
    for t, o in zip(dates, outs):
        rng_ = pd.date_range(t, t + timedelta(days=1), tz='UTC')
        got = [DayOfWeek.from_pandas(rng_[0]).value, int(rng_[0].timestamp()) // 86400, len(rng_)]
        if got != [o[3], o[2], 2]:
            ctx.diverge('pandas.weekday', dict(type='calendar', date=[t.year, t.month, t.day]), f'impl={got} model={o}')


def unit_distcheck(ctx, rng, n):
    """`_distance_check` on threshold values, real call with real AirportInfo objects"""
    from AEIC.missions.oag import OAGDatabase
    from AEIC.missions.writable_database import AirportInfo
    from AEIC.utils.airports import Airport

    st = _state
    st['ndb'] += 1
    path = st['tmp'] / f'dist{st["ndb"]}.sqlite'
    db = OAGDatabase(str(path), 2019)
    items, meta = [], []
    try:
        for k in range(n):
            u = rng.random()
            if u < 0.6:
                c1, c2 = (str(x) for x in rng.choice(list(AIRPORTS), size=2, replace=False))
                o, d = AIRPORTS[c1][:2], AIRPORTS[c2][:2]
            elif u < 0.8:   # around the 1 km threshold, any longitude
                la, lo = float(rng.uniform(-80, 80)), float(rng.uniform(-179, 179))
                dl = float(rng.uniform(0.0, 0.02))
                o, d = (la, lo), (la + dl * float(rng.random()), lo + dl * float(rng.random()))
            else:
                o = (float(rng.uniform(-89, 89)), float(rng.uniform(-180, 180)))
                d = (float(rng.uniform(-89, 89)), float(rng.uniform(-180, 180)))
            gm = true_gc_m(o, d)
            g = gm / 1000.0
            cands = [g + 50.0, math.nextafter(g + 50.0, math.inf), math.nextafter(g + 50.0, -math.inf), g - 50.0,
                     math.nextafter(g - 50.0, -math.inf), g * 1.1, math.nextafter(g * 1.1, math.inf), g * 0.9,
                     math.nextafter(g * 0.9, -math.inf), g * 1.1 + 1e-9, 0.0, -5.0, 1e-300, g, g + 49.0, g + 60.0, g * 1.5,
                     g * 0.5, g + 51.0, max(g - 51.0, 0.1), float(rng.uniform(0, 2 * g + 100)), float('inf')]
            given = float(cands[int(rng.integers(0, len(cands)))])
            items.append([f2u(gm), f2u(given)])
            items.append([f2u(swapped_gc_m(o, d)), f2u(given)])
            meta.append((o, d, given, g))
        outs = ctx.driver.outs([dict(op='c13.distcheck', items=items)])[0]
        for k, (o, d, given, g) in enumerate(meta):
            m, m_cur = outs[2 * k], outs[2 * k + 1]     # intended (true geodesic) / as-is (swapped arguments)
            ao = AirportInfo(1, Airport('AAA', 'a', o[0], o[1], None, 'US', None), 'UTC')
            ad = AirportInfo(2, Airport('BBB', 'b', d[0], d[1], None, 'US', None), 'UTC')
            db.warnings.clear()
            ok = db._distance_check(7, ao, ad, given)
            w = db.warnings.get(7)
            got = 'ok' if ok else {'ZERO_DISTANCE': 'zero', 'SUSPICIOUS_DISTANCE': 'suspicious'}.get(w.warn_type.name if w else '', 'false_without_warning')
            if ok and w is not None:
                got = 'ok_with_warning'
            # the documented rule, from the true geodesic
            if g < 1.0:
                spec = 'zero'
            elif given > 0 and abs(given - g) > 50.0 and 100 * abs(given - g) / g > 10.0:
                spec = 'suspicious'
            else:
                spec = 'ok'
            case = dict(type='dist', origin=list(o), destination=list(d), given_km=given, gc_km=g)
            ctx.case(json.dumps(['dist', o, d, given]), nontrivial=True)
            ctx.count('dist:' + spec)
            if got == m:
                ctx.count('dist_agrees:intended')
            elif got == m_cur:
                ctx.count('dist_agrees:as_is_only')
            else:
                ctx.diverge('distance_check', case, f'impl={got} intended model={m} as-is model={m_cur}')
            if got != spec:
                ctx.clause_fail('plausible_never_dropped' if spec == 'ok' else 'skipped_only_for_documented_reason', case,
                                finding=FID if (got == m_cur and m_cur != m) else None,
                                detail=f'_distance_check says {got}, documented rule on the true great-circle distance {g:.3f} km says {spec}')
    finally:
        db.close()
        try:
            path.unlink()
        except OSError:
            pass


def replay_dist(case) -> list[str]:
    from AEIC.missions.oag import OAGDatabase
    from AEIC.missions.writable_database import AirportInfo
    from AEIC.utils.airports import Airport

    st = _state
    st['ndb'] += 1
    path = st['tmp'] / f'dist{st["ndb"]}.sqlite'
    db = OAGDatabase(str(path), 2019)
    try:
        o, d, given = case['origin'], case['destination'], float(case['given_km'])
        g = true_gc_m(o, d) / 1000.0
        ok = db._distance_check(7, AirportInfo(1, Airport('AAA', 'a', o[0], o[1], None, 'US', None), 'UTC'),
                                AirportInfo(2, Airport('BBB', 'b', d[0], d[1], None, 'US', None), 'UTC'), given)
        spec_ok = not (g < 1.0 or (given > 0 and abs(given - g) > 50.0 and 100 * abs(given - g) / g > 10.0))
        return [] if ok == spec_ok else [f'_distance_check returned {ok}; documented rule on true distance {g:.3f} km, given {given} km says {spec_ok}']
    finally:
        db.close()
        try:
            path.unlink()
        except OSError:
            pass


def unit_parse(ctx, rng, n):
    """row filter / field parser against `CSVEntry.is_row_valid` / `from_csv_row`"""
    from AEIC.missions.oag import CSVEntry

    rows = []
    for k in range(n):
        r = gen_row(rng, 2, 2019, 'skip' if k % 2 else 'valid')
        r.pop('line')
        rows.append(r)
    outs = ctx.driver.outs([dict(op='c13.parse', rows=rows)])[0]
    for r, m in zip(rows, outs):
        try:
            valid = CSVEntry.is_row_valid(dict(r))
        except Exception:
            valid = None
        e = CSVEntry.from_csv_row(dict(r), 5)
        case = dict(type='parse', row=r)
        if e is None:
            got = 'malformed' if valid in (None, True) else 'filtered'
            if COARSE.get(m['filter'] or 'imported') != got:
                ctx.diverge('row_filter', case, f'impl={got} model={m["filter"]}')
            ctx.count('parse:' + got)
            continue
        ctx.count('parse:ok')
        if m['filter'] is not None:
            ctx.diverge('row_filter', case, f'impl parsed, model={m["filter"]}')
            continue
        got = dict(fltno=e.fltno, dep=e.deptim.hour * 60 + e.deptim.minute, arr=e.arrtim.hour * 60 + e.arrtim.minute, arrday=e.arrday,
                   days=sorted(x.value for x in e.days), distance=e.distance, seats=e.seats,
                   efffrom=None if e.efffrom is None else [e.efffrom.year, e.efffrom.month, e.efffrom.day],
                   effto=None if e.effto is None else [e.effto.year, e.effto.month, e.effto.day])
        want = {k: m[k] for k in got}
        if got != want:
            ctx.diverge('row_parse', case, f'impl={got} model={want}')


# ------------------------------------------------------------------------------------------------ corpus / replay
def dist_case(ctx, case):
    """one `_distance_check` witness: (failure messages, predicted-by-as-is-model?)"""
    msgs = replay_dist(case)
    o, d, given = case['origin'], case['destination'], float(case['given_km'])
    try:
        m, m_cur = ctx.driver.outs([dict(op='c13.distcheck', items=[[f2u(true_gc_m(o, d)), f2u(given)],
                                                                     [f2u(swapped_gc_m(o, d)), f2u(given)]])])[0]
    except LeanError:
        return msgs, False
    return msgs, (m != m_cur)


def run_case(ctx, case, record=True) -> list:
    """evaluate one stored case against the implementation; returns the failures (clause, row, detail, finding)"""
    if case.get('type') == 'dist':
        msgs, predicted = dist_case(ctx, case)
        fs = [('plausible_never_dropped' if 'says True' in m else 'skipped_only_for_documented_reason', 0, m,
               FID if predicted else None) for m in msgs]
        if record:
            for f in fs:
                ctx.count(('known:' if f[3] else 'clause_fail:') + f[0])
                ctx.clause_fail(f[0], case, finding=f[3], detail=f[2])
        return fs
    if case.get('type') in ('calendar', 'yearday', 'parse'):
        return []
    try:
        mods = models_for(ctx, [case])[0]
    except LeanError:
        mods = None
    impl, fails, _ = evaluate_db(ctx, case, mods, register=False)
    if record and fails:
        report_fails(ctx, case, fails)
    return fails


def corpus_cases():
    d = CORPUS_DIR / PID
    if not d.exists():
        return []
    res = []
    for p in sorted(d.glob('*.json')):
        j = json.loads(p.read_text())
        res.append((p.name, j.get('case', j)))
    return res


def replay(ctx, path) -> int:
    j = json.loads(Path(path).read_text())
    if 'first' in j:
        case = j['first']['case']
    elif 'divergences' in j and j['divergences']:
        case = j['divergences'][0]['case']
    else:
        case = j.get('case', j)
    load_own_findings(ctx)
    setup()
    try:
        fails = run_case(ctx, case, record=False)
    finally:
        teardown()
    if fails:
        for f in fails[:10]:
            print(f'REPLAY-FAIL property={PID} clause={f[0]} row={f[1]} {f[2]}' + (f'  [open finding {f[3]}]' if f[3] else ''))
        return 1
    print(f'REPLAY-OK property={PID} (no clause fails on this input with the current implementation)')
    return 0


# ------------------------------------------------------------------------------------------------ main
def main(ctx) -> int:
    ctx.proofs()
    load_own_findings(ctx)
    setup()
    try:
        rng = ctx.rng
        # 1. corpus first
        for name, case in corpus_cases():
            ctx.count('corpus_cases')
            fs = run_case(ctx, case)
            ctx.case('corpus:' + name, nontrivial=True)
            if fs:
                ctx.notes.append(f'corpus case {name} fails: {fs[0][0]}: {fs[0][2]}')
        # 2. unit correspondences
        unit_calendar(ctx, rng, ctx.scale(3000, 60000))
        unit_pandas_weekday(ctx, rng, ctx.scale(300, 5000))
        unit_parse(ctx, rng, ctx.scale(400, 6000))
        unit_distcheck(ctx, rng, ctx.scale(1500, 40000))
        # 3. databases
        ncase = ctx.scale(150, 2500)
        cases = [gen_case(rng, k) for k in range(ncase)]
        diverging = []
        B = 50
        for s in range(0, ncase, B):
            chunk = cases[s:s + B]
            try:
                mods = models_for(ctx, chunk)
            except LeanError as e:
                ctx.broken_obligation(f'driver: {e}')
                mods = [None] * len(chunk)
            for c, mod in zip(chunk, mods):
                impl, fails, diffs = evaluate_db(ctx, c, mod)
                if fails:
                    report_fails(ctx, c, fails)
                for dmsg in diffs[:3]:
                    ctx.diverge('import_tables', dict(type='db', year=c['year'], rows=c['rows']), dmsg)
                if diffs:
                    diverging.append(c)
        # 4. failing-input search around diverging cases
        if (ctx.divergences or ctx.broken) and not ctx.violations:
            srng = __import__('harness.common', fromlist=['make_rng']).make_rng(PID, ctx.seed, 'search')
            pool = diverging[:6] if diverging else cases[:6]
            for c in pool:
                if widen(ctx, srng, c, budget=ctx.scale(40, 300)):
                    break
        ctx.extra['model_variants'] = 'intended = Variant.fixed; as-is = Variant.current (open finding %s)' % FID
        return ctx.finish(RULE, TRUSTED, ASSUME)
    finally:
        teardown()
