"""Shared pieces of the C02 / C17 harnesses: generators (missions, performance tables, step sizes),
the recording wrappers around the real performance model / ground track, the flight runner, the
canonicaliser and the translation of one recorded flight into a `c02.fly` driver op.

Everything random comes from a numpy Generator handed in by the caller; a *case* is a small JSON-able dict
from which the whole flight (mission, table, options) is rebuilt deterministically, so replay files are
self-contained.
"""
from __future__ import annotations

import contextlib
import math
import tomllib

import numpy as np

from harness.common import REPO, f2u, u2f

FIELDS = ['fuel_flow', 'aircraft_mass', 'fuel_mass', 'ground_distance', 'altitude', 'flight_level',
          'rate_of_climb', 'flight_time', 'latitude', 'longitude', 'azimuth', 'heading', 'true_airspeed',
          'ground_speed']
IX = {n: i for i, n in enumerate(FIELDS)}
FT = 0.3048

# phase sizes that sit before / on / after the container's growth boundaries (blocks of 50)
N_CHOICES = [2, 3, 7, 33, 49, 50, 51, 70, 99, 100, 101, 150]


def frac_for(n: int) -> float:
    """a step fraction with int(1/frac) == n (and int(1/frac + 1) == n + 1)"""
    f = 1.0 / (n + 0.5)
    assert int(1 / f) == n and int(1 / f + 1) == n + 1
    return f


# --------------------------------------------------------------------------- performance models
_SAMPLE = None
_PM_CACHE: dict = {}


def _sample_dict():
    global _SAMPLE
    if _SAMPLE is None:
        with open(REPO / 'src' / 'AEIC' / 'data' / 'performance' / 'sample_performance_model.toml', 'rb') as f:
            _SAMPLE = tomllib.load(f)
    return _SAMPLE


def gen_table(spec: dict) -> dict:
    """A legacy performance table obeying the PTF constraints (TAS by FL only; climb ROCD by FL and mass, climb fuel
    flow by FL only; cruise fuel flow by FL and mass; descent single mass, everything by FL only)."""
    r = np.random.Generator(np.random.PCG64(int(spec['seed'])))
    top = float(spec['top_fl'])
    lo = float(spec.get('bottom_fl', 0.0))
    nfl = int(spec['nfl'])
    inner = np.sort(r.uniform(lo, top, size=max(nfl - 2, 0)))
    fls = sorted(set([lo] + [float(round(x)) for x in inner] + [top]))
    m_lo, m_nom, m_hi = [float(x) for x in spec['masses']]
    a_t, b_t = r.uniform(70, 130), r.uniform(0.2, 0.45)
    a_f, b_f = r.uniform(0.8, 2.0), r.uniform(0.0005, 0.0015)
    a_r, b_r = r.uniform(12, 30), r.uniform(0.01, 0.03)
    rows = []
    for fl in fls:
        wob = 1.0 + 0.03 * math.sin(fl / 37.0)
        tas_c = (a_t + b_t * fl) * wob
        tas_z = (a_t + 10 + b_t * fl) * wob
        tas_d = (a_t + 5 + b_t * fl) * wob
        ff_c = (a_f - b_f * fl) * wob
        for m in (m_lo, m_nom, m_hi):
            roc = max((a_r - b_r * fl), 0.8) * (m_nom / m) ** 1.5
            rows.append([ff_c, fl, tas_c, roc, m])
            rows.append([0.45 * ff_c * (m / m_nom) ** 0.8, fl, tas_z, 0.0, m])
        rows.append([0.12 * ff_c, fl, tas_d, -(4.0 + 0.01 * fl) * wob, m_nom])
    return {'cols': ['fuel_flow', 'fl', 'tas', 'rocd', 'mass'], 'data': rows}


def perf_model(spec: dict):
    """spec = {'kind':'sample'} or {'kind':'gen', seed, top_fl, nfl, masses, max_alt_ft, max_payload}"""
    key = repr(sorted(spec.items()))
    if key in _PM_CACHE:
        return _PM_CACHE[key]
    from AEIC.performance.models import PerformanceModel

    d = dict(_sample_dict())
    d.pop('APU_name', None)
    if spec['kind'] == 'sample_low':
        # the sample table under a low ceiling: the planned cruise level (ceiling - 7000 ft) lies below the first cruise row,
        # so the mission is rejected while the starting mass is still being estimated (seed C17_4)
        d['maximum_altitude_ft'] = int(spec['max_alt_ft'])
    if spec['kind'] == 'gen':
        d['flight_performance'] = gen_table(spec)
        d['maximum_altitude_ft'] = int(spec['max_alt_ft'])
        d['maximum_payload_kg'] = int(spec['max_payload'])
        d['aircraft_name'] = f"GEN{spec['seed']}"
    pm = PerformanceModel.from_data(d)
    if len(_PM_CACHE) > 64:
        _PM_CACHE.clear()
    _PM_CACHE[key] = pm
    return pm


def gen_perf_spec(rng) -> dict:
    if rng.random() < 0.35:
        return {'kind': 'sample'}
    max_ft = int(rng.choice([22000, 28000, 33000, 37000, 41000, 45000]))
    m_nom = float(rng.uniform(20000, 200000))
    spread = float(rng.uniform(0.15, 0.4))
    return {'kind': 'gen', 'seed': int(rng.integers(1, 2 ** 31)), 'top_fl': float(max_ft // 100 + 10),
            'bottom_fl': 0.0 if rng.random() < 0.85 else 60.0, 'nfl': int(rng.integers(3, 25)),
            'masses': [round(m_nom * (1 - spread)), round(m_nom), round(m_nom * (1 + spread * 0.6))],
            'max_alt_ft': max_ft, 'max_payload': int(m_nom * rng.uniform(0.2, 0.4))}


# --------------------------------------------------------------------------- missions
def gen_route(rng) -> tuple[list, list, str]:
    """(origin [lon, lat, alt], destination [lon, lat, alt], tag)"""
    u = rng.random()
    if u < 0.30:  # ordinary
        o = [rng.uniform(-170, 170), rng.uniform(-60, 60)]
        d = [o[0] + rng.uniform(-60, 60), float(np.clip(o[1] + rng.uniform(-40, 40), -85, 85))]
        tag = 'ordinary'
    elif u < 0.45:  # antimeridian
        o = [rng.uniform(150, 180), rng.uniform(-50, 60)]
        d = [rng.uniform(-180, -140), rng.uniform(-50, 60)]
        if rng.random() < 0.5:
            o, d = d, o
        tag = 'antimeridian'
    elif u < 0.58:  # polar
        o = [rng.uniform(-180, 180), rng.uniform(60, 89.5) * rng.choice([-1, 1])]
        d = [o[0] + rng.uniform(120, 240), rng.uniform(50, 89.5) * np.sign(o[1])]
        tag = 'polar'
    elif u < 0.68:  # near-antipodal
        o = [rng.uniform(-180, 180), rng.uniform(-60, 60)]
        d = [o[0] + 180 + rng.uniform(-3, 3), -o[1] + rng.uniform(-3, 3)]
        tag = 'antipodal'
    elif u < 0.85:  # short hop (cruise may be shorter than climb + descent)
        o = [rng.uniform(-170, 170), rng.uniform(-60, 60)]
        d = [o[0] + rng.uniform(-2.5, 2.5), o[1] + rng.uniform(-2.5, 2.5)]
        tag = 'short'
    else:  # meridional / equatorial specials
        o = [rng.choice([0.0, 90.0, -180.0, 179.5]), rng.choice([0.0, 45.0, -30.0])]
        d = [o[0] + rng.choice([0.0, 30.0, 1.0]), o[1] + rng.choice([0.0, 20.0, -15.0]) + (1.0 if rng.random() < 0.5 else 0.0)]
        if d == o:
            d[1] += 5.0
        tag = 'special'
    wrap = lambda x: float(((x + 180.0) % 360.0) - 180.0)  # noqa: E731
    o[0], d[0] = wrap(o[0]), wrap(d[0])
    d[1] = float(np.clip(d[1], -89.9, 89.9))

    def elev():
        v = rng.random()
        if v < 0.55:
            return float(rng.uniform(0, 600))
        if v < 0.65:
            return float(rng.uniform(-420, 0))
        if v < 0.9:
            return float(rng.uniform(600, 4500))
        return float(rng.uniform(4500, 14000))  # near / above the cruise level or the ceiling

    return [float(o[0]), float(o[1]), elev()], [float(d[0]), float(d[1]), elev()], tag


def make_mission(case: dict):
    import pandas as pd

    from AEIC.missions import Mission
    from AEIC.types import Position

    m = Mission(origin=case.get('origin_code', 'VXO'), destination=case.get('dest_code', 'VXD'),
                departure=pd.Timestamp(case.get('departure', '2024-09-01T12:00:00'), tz='UTC'),
                arrival=pd.Timestamp('2024-09-01T18:00:00', tz='UTC'),
                load_factor=float(case['load_factor']), aircraft_type='VX1', flight_id=case.get('flight_id'))
    # positions are preset on the instance (cached_property slots) unless the case wants the real airport lookup
    if case.get('orig') is not None:
        m.__dict__['origin_position'] = Position(*[float(x) for x in case['orig']])
    if case.get('dest') is not None:
        m.__dict__['destination_position'] = Position(*[float(x) for x in case['dest']])
    return m


def gen_case(rng, n_choices=None, allow_given=False) -> dict:
    o, d, tag = gen_route(rng)
    ns = n_choices or N_CHOICES
    if rng.random() < 0.5:
        n = int(rng.choice(ns))
        nn = [n, n, n]
    else:
        nn = [int(rng.choice(ns)) for _ in range(3)]
    case = {'orig': o, 'dest': d, 'tag': tag, 'load_factor': float(rng.choice([0.0, 0.6, 0.85, 1.0, 1.0, rng.uniform(0.4, 1)])),
            'n': nn, 'perf': gen_perf_spec(rng),
            'iterate': bool(rng.random() < 0.35), 'max_iters': int(rng.choice([1, 2, 3, 5, 8, 20])),
            'tol': float(rng.choice([1e-2, 1e-3, 5e-2, 0.3])), 'lhv': 43.8e6, 'given_mass': None}
    if allow_given and rng.random() < 0.08:
        case['given_mass'] = float(rng.uniform(40000, 80000))
    return case


def make_builder(case: dict):
    import AEIC.trajectories.builders as tb

    fr = case.get('frac') or [frac_for(n) for n in case['n']]
    return tb.LegacyBuilder(
        options=tb.Options(iterate_mass=bool(case['iterate']), max_mass_iters=int(case['max_iters']),
                           mass_iter_reltol=float(case['tol']), use_weather=bool(case.get('use_weather', False)),
                           optimize_traj=bool(case.get('optimize', False))),
        legacy_options=tb.LegacyOptions(frac_step_clm=fr[0], frac_step_crz=fr[1], frac_step_des=fr[2],
                                        fuel_LHV=float(case.get('lhv', 43.8e6))))


# --------------------------------------------------------------------------- recording
class RecPM:
    """Stands in for the performance model inside one flight: same answers, every `evaluate` recorded."""

    def __init__(self, pm):
        object.__setattr__(self, '_pm', pm)
        object.__setattr__(self, 'calls', [])
        object.__setattr__(self, 'errors', [])

    def __getattr__(self, name):
        return getattr(object.__getattribute__(self, '_pm'), name)

    def evaluate(self, state, rules):
        from AEIC.performance.types import SimpleFlightRules as R

        pm = self._pm
        mass = state.aircraft_mass
        if isinstance(mass, str):
            mass = pm.maximum_mass if mass == 'max' else min(pm.performance_table.mass)
        rule = {R.CLIMB: 0, R.CRUISE: 1, R.DESCEND: 2}[rules]
        key = [rule, f2u(float(state.altitude)), f2u(float(mass))]
        try:
            p = pm.evaluate(state, rules)
        except Exception as e:
            self.calls.append(key + ['envelope'])
            self.errors.append(e)
            raise
        self.calls.append(key + [f2u(p.true_airspeed), f2u(p.rate_of_climb), f2u(p.fuel_flow)])
        return p


@contextlib.contextmanager
def record_track():
    """Patches GroundTrack for the duration of one flight: remembers the track object and every `step` result."""
    from AEIC.trajectories.ground_track import GroundTrack

    rec = {'track': None, 'steps': [], 'errors': []}
    orig_init, orig_step = GroundTrack.__init__, GroundTrack.step

    def init(self, *a, **k):
        orig_init(self, *a, **k)
        rec['track'] = self

    def step(self, from_distance, distance_step):
        try:
            p = orig_step(self, from_distance, distance_step)
        except Exception as e:
            rec['errors'].append(e)
            raise
        rec['steps'].append([f2u(float(from_distance) + float(distance_step)), f2u(p.location.longitude),
                             f2u(p.location.latitude), f2u(p.azimuth)])
        return p

    GroundTrack.__init__, GroundTrack.step = init, step
    try:
        yield rec
    finally:
        GroundTrack.__init__, GroundTrack.step = orig_init, orig_step


def columns(traj) -> list[list[float]]:
    return [[float(x) for x in getattr(traj, n)] for n in FIELDS]


def run_flight(case: dict, builder=None, pm=None) -> dict:
    """Fly `case` on the real implementation. Returns {'ok': bool, 'cols', 'sm', 'tfm', 'n', 'kind', 'exc', 'rec', ...}."""
    pm = pm or perf_model(case['perf'])
    builder = builder or make_builder(case)
    mission = make_mission(case)
    rpm = RecPM(pm)
    out: dict = {'pm': pm, 'builder': builder}
    with record_track() as trk:
        try:
            kw = {}
            if case.get('given_mass') is not None:
                kw['starting_mass'] = float(case['given_mass'])
            traj = builder.fly(rpm, mission, **kw)
            out.update(ok=True, traj=traj, cols=columns(traj), sm=float(traj.starting_mass),
                       tfm=float(traj.total_fuel_mass), n=[int(traj.n_climb), int(traj.n_cruise), int(traj.n_descent)])
        except Exception as e:  # noqa: BLE001 - the kind of refusal is what we are after
            if rpm.errors and e is rpm.errors[-1]:
                kind = 'envelope'
            elif trk['errors'] and e is trk['errors'][-1]:
                kind = 'track'
            elif isinstance(e, RuntimeError) and not isinstance(e, NotImplementedError) and rpm.calls:
                kind = 'nonConvergence'
            elif isinstance(e, NotImplementedError):
                kind = 'notImplemented'
            elif not rpm.calls and isinstance(e, ValueError):
                kind = 'ctor'
            else:
                kind = 'internal:' + type(e).__name__
            out.update(ok=False, kind=kind, exc=e)
    out['perf_calls'] = rpm.calls
    out['steps'] = trk['steps']
    out['track'] = trk['track']
    return out


def model_op(case: dict, res: dict) -> dict:
    """The `c02.fly` driver op for a flight that was just run (oracles = what the implementation was told)."""
    pm = res['pm']
    trk = res['track']
    if trk is not None:
        p0 = trk[0]
        total, start = trk.total_distance, [p0.location.longitude, p0.location.latitude, p0.azimuth]
    else:
        total, start = 0.0, [0.0, 0.0, 0.0]
    fr = case.get('frac') or [frac_for(n) for n in case['n']]
    op = {'op': 'c02.fly', 'perf': res['perf_calls'], 'loc': res['steps'], 'total': f2u(total),
          'start': [f2u(x) for x in start], 'frac': [f2u(x) for x in fr],
          'orig_alt': f2u(case['orig'][2]), 'dest_alt': f2u(case['dest'][2]), 'max_alt': f2u(pm.maximum_altitude),
          'load_factor': f2u(case['load_factor']), 'max_payload': f2u(float(pm.maximum_payload)),
          'empty_mass': f2u(pm.empty_mass), 'max_mass': f2u(pm.maximum_mass), 'lhv': f2u(case.get('lhv', 43.8e6)),
          'iterate': bool(case['iterate']), 'max_iters': int(case['max_iters']), 'tol': f2u(case['tol']),
          'optimize': bool(case.get('optimize', False))}
    if case.get('given_mass') is not None:
        op['given_mass'] = f2u(case['given_mass'])
    return op


MODEL_KIND = {'originAboveCruise': 'ctor', 'destAboveCruise': 'ctor', 'descentNegative': 'ctor', 'unknownAirport': 'ctor',
              'envelope': 'envelope', 'track': 'track', 'nonConvergence': 'nonConvergence',
              'notImplemented': 'notImplemented', 'noFuelLoad': 'internal:TypeError'}


def model_cols(out: dict) -> list[list[float]]:
    pts = out['pts']
    return [[u2f(p[i]) for p in pts] for i in range(len(FIELDS))]
