"""Executor of store op sequences on the real `TrajectoryStore` (shared by C07–C10)."""
from __future__ import annotations

import gc
import os
import shutil
import tempfile
from pathlib import Path

import numpy as np


def err_kind(e: BaseException) -> str:
    """Map an exception to a small enum; messages are never compared."""
    n = type(e).__name__
    if isinstance(e, IndexError):
        return 'index_error'
    if n == 'EvictionOccurred':
        return 'eviction_refused'
    if isinstance(e, ValueError):
        return 'value_error'
    if isinstance(e, RuntimeError):
        return 'runtime_error'
    if isinstance(e, AssertionError):
        return 'internal'
    return 'internal:' + n


class RealStore:
    """Drives one store path through sessions. Payload tag = trajectory name `t<tag>`; npts chosen by the caller."""

    def __init__(self, workdir: Path, fname: str = 'store.nc'):
        from AEIC.trajectories import TrajectoryStore
        from AEIC.trajectories.trajectory import Trajectory

        register_extra_fieldset()
        self.TS = TrajectoryStore
        self.Trajectory = Trajectory
        self.dir = Path(workdir)
        self.path = self.dir / fname
        self.ts = None

    # -- trajectories
    def make(self, tag: int, npts: int, fid, extra: bool = False, bad: str | None = None):
        t = self.Trajectory(npts, name=f't{tag}')
        if extra:
            # base first, as the loader builds it: the hash of a merged data dictionary depends on the merge order
            from AEIC.storage import FieldSet
            t.add_fields(FieldSet.from_registry('c07_extra'))
        base = float(tag)
        ar = np.arange(npts, dtype=float)
        for f in ('fuel_flow', 'aircraft_mass', 'fuel_mass', 'ground_distance', 'altitude', 'flight_level',
                  'rate_of_climb', 'flight_time', 'latitude', 'longitude', 'azimuth', 'heading', 'true_airspeed',
                  'ground_speed'):
            setattr(t, f, ar + base)
        t.starting_mass = 1000.0 + base
        t.total_fuel_mass = 10.0 + base
        t.n_climb = npts // 3
        t.n_cruise = npts // 3
        t.n_descent = npts - 2 * (npts // 3)
        t.flight_id = fid
        if extra:
            from AEIC.types import Species, SpeciesValues

            t.x1 = ar * 2.0 + base
            # species-indexed value: the species dimension of a file is fixed by its first trajectory ({CO2, H2O} here);
            # bad='species' carries a species outside it and must be refused without side effects
            if bad == 'species':
                t.xs = SpeciesValues({Species.CO2: base, Species.NOx: base + 0.25})
            else:
                t.xs = SpeciesValues({Species.CO2: base, Species.H2O: base + 0.5})
        if bad == 'missing_required':
            t._data['starting_mass'] = None
        return t

    @staticmethod
    def tag_of(t) -> str:
        n = t.name
        return f'{n}/{len(t)}/{t.starting_mass:.1f}'

    @staticmethod
    def expected_tag(tag: int, npts: int) -> str:
        return f't{tag}/{npts}/{1000.0 + float(tag):.1f}'

    # -- sessions
    def close(self):
        if self.ts is not None:
            try:
                self.ts.close()
            finally:
                self.ts = None
                gc.collect()

    def do(self, op: dict) -> str:
        k = op['op']
        try:
            if k == 'create':
                self.close()
                if op.get('file', True):
                    if self.path.exists():
                        self.path.unlink()
                    self.ts = self.TS.create(base_file=self.path, cache_size_mb=op['cache_mb'])
                else:
                    self.ts = self.TS.create(cache_size_mb=op['cache_mb'])
                return 'ok'
            if k == 'open_read':
                self.close()
                self.ts = self.TS.open(base_file=self.path, cache_size_mb=op['cache_mb'])
                return 'ok'
            if k == 'open_append':
                self.close()
                self.ts = self.TS.append(base_file=self.path, cache_size_mb=op['cache_mb'])
                return 'ok'
            if k == 'close':
                self.close()
                return 'ok'
            if self.ts is None:
                return 'no_session'
            if k == 'add':
                t = self.make(op['tag'], op['npts'], op.get('fid'), extra=op.get('extra', False), bad=op.get('bad'))
                return f'idx:{self.ts.add(t)}'
            if k == 'get':
                return self.tag_of(self.ts[op['i']])
            if k == 'len':
                return f'len:{len(self.ts)}'
            if k == 'iter':
                return 'iter:' + ','.join(self.iterate(op.get('mode')))
            if k == 'sync':
                self.ts.sync()
                return 'ok'
            if k == 'get_flight':
                t = self.ts.get_flight(op['fid'])
                return 'none' if t is None else self.tag_of(t)
            if k == 'save':
                self.ts.save(base_file=self.path)
                return 'ok'
            return 'bad_op'
        except BaseException as e:  # noqa: BLE001
            if isinstance(e, (KeyboardInterrupt, SystemExit)):
                raise
            return 'err:' + err_kind(e)


def _iterate(self, mode):
    """Tags yielded by iterating the store. The property says iteration yields the trajectories in insertion order *at every
    moment*, so every iteration is a walk of its own: `mode` overlaps two walks over the same store object in the ways Python
    code does it (zip of the store with itself, a nested loop, a walk resumed after another complete walk) and reports one
    walk's tags when all walks agree, and the disagreement otherwise."""
    ts = self.ts
    if mode == 'zip':
        pairs = [(self.tag_of(a), self.tag_of(b)) for a, b in zip(ts, ts)]
        return [a if a == b else f'INTERFERENCE({a}|{b})' for a, b in pairs]
    if mode == 'nested':
        outer, inners = [], []
        for a in ts:
            outer.append(self.tag_of(a))
            inners.append([self.tag_of(b) for b in ts])
        bad = [i for i, inner in enumerate(inners) if inner != outer]
        return outer if not bad else outer + [f'INTERFERENCE(inner walk {bad[0]}: {"+".join(inners[bad[0]])})']
    if mode == 'suspended':
        it = iter(ts)
        first = []
        try:
            first.append(self.tag_of(next(it)))
        except StopIteration:
            pass
        mid = [self.tag_of(t) for t in ts]
        walk = first + [self.tag_of(t) for t in it]
        return walk if walk == mid else walk + [f'INTERFERENCE(complete walk in between: {"+".join(mid)})']
    return [self.tag_of(t) for t in ts]


RealStore.iterate = _iterate


def fresh_dir() -> Path:
    return Path(tempfile.mkdtemp(prefix='aeicverif_'))


def rm_dir(d: Path):
    gc.collect()
    shutil.rmtree(d, ignore_errors=True)


# --------------------------------------------------------------------------- shared generation / comparison (C07, C08, C10)
NPTS_CHOICES = [40, 2600, 3000, 3000, 4000, 5000]
TOO_LARGE_NPTS = 9400  # > 1 MB with the 14 float64 per-point base fields


def register_extra_fieldset():
    from AEIC.storage import FieldMetadata, FieldSet

    if not FieldSet.known('c07_extra'):
        from AEIC.storage import Dimensions

        FieldSet('c07_extra', x1=FieldMetadata(description='verification extra field', units='1'),
                 xs=FieldMetadata(dimensions=Dimensions.from_abbrev('TS'), description='verification species field', units='g'))


_NBYTES_CACHE: dict = {}


def item_json(store: 'RealStore', op: dict) -> dict:
    """The model's view of the trajectory an `add` op creates (bytes measured on the real object)."""
    key = (op['npts'], bool(op.get('extra', False)))
    if key not in _NBYTES_CACHE:
        _NBYTES_CACHE[key] = int(store.make(0, op['npts'], None, extra=key[1]).nbytes)
    return {
        'tag': op['tag'],
        'bytes': _NBYTES_CACHE[key],
        'fid': op.get('fid'),
        'fs': 1 if op.get('extra', False) else 0,
        'complete': op.get('bad') not in ('missing_required', 'species'),
    }


def model_ops(store: 'RealStore', ops: list[dict]) -> list[dict]:
    out = []
    for o in ops:
        if o['op'] == 'add':
            out.append({'op': 'add', 'item': item_json(store, o)})
        else:
            out.append({k: v for k, v in o.items() if k != 'mode'})   # overlapping walks are walks: one `iter` each in the model
    return out


def canon_impl(out: str, tags: dict) -> str:
    """Map the implementation's `t<tag>/<npts>/<mass>` strings to `t<tag>` when they match what was added under that
    tag, and to `CORRUPT(...)` otherwise."""

    def one(s: str) -> str:
        name = s.split('/')[0]
        return name if tags.get(name) == s else f'CORRUPT({s})'

    if out.startswith('iter:'):
        body = out[5:]
        return 'iter:' + ','.join(one(x) for x in body.split(',')) if body else 'iter:'
    if out.startswith('t') and '/' in out:
        return one(out)
    return out


def run_impl(ops: list[dict], with_keys: bool = True):
    """Run an op sequence on a fresh real store; returns (canonical outs, cache key sets)."""
    register_extra_fieldset()
    d = fresh_dir()
    s = RealStore(d)
    tags = {}
    outs, keys = [], []
    try:
        for o in ops:
            if o['op'] == 'add':
                tags[f"t{o['tag']}"] = RealStore.expected_tag(o['tag'], o['npts'])
            r = s.do(o)
            outs.append(canon_impl(r, tags))
            if with_keys:
                try:
                    keys.append(sorted(int(k) for k in s.ts._trajectories.keys()) if s.ts is not None else [])
                except Exception:  # noqa: BLE001
                    keys.append(None)
    finally:
        try:
            s.close()
        except Exception:  # noqa: BLE001
            pass
        rm_dir(d)
    return outs, keys


def run_model(ctx, store_for_sizes: 'RealStore', batches: list[list[dict]]):
    reqs = [{'op': 'store.run', 'ops': model_ops(store_for_sizes, ops)} for ops in batches]
    return ctx.driver.outs(reqs)


def gen_history(rng, max_ops: int, indexable: bool | None = None, invalid_rate: float = 0.04, mem_rate: float = 0.12):
    """One structured store history: sessions of create / append / read with adds, reads of old and new items,
    iteration, syncs, lookups; small caches so that most reads evict."""
    ops: list[dict] = []
    mem = rng.random() < mem_rate
    cache = int(rng.choice([1, 1, 1, 2, 2048]))
    ops.append({'op': 'create', 'file': not mem, 'cache_mb': cache})
    if indexable is None:
        indexable = bool(rng.random() < 0.5)
    extra = bool(rng.random() < 0.2)
    n_added = 0
    tag = 0
    used_ids: set[int] = set()
    mode = 'create'
    n = int(rng.integers(4, max_ops + 1))
    while len(ops) < n:
        r = rng.random()
        writable = mode in ('create', 'append')
        if rng.random() < (0.07 if mem else 0.004):
            # persist the in-memory store (rarely: the same call on a store that is already file-backed, which is refused)
            ops.append({'op': 'save'})
            if mem and n_added > 0:
                mem = False
            continue
        if r < (0.42 if writable else 0.04):
            npts = int(rng.choice(NPTS_CHOICES))
            if rng.random() < 0.015:
                npts = TOO_LARGE_NPTS
            elif rng.random() < 0.04:
                npts = 0  # a trajectory without points is a trajectory: it is accepted, counted and must be returned
            o = {'op': 'add', 'tag': tag, 'npts': npts, 'extra': extra}
            fid = None
            if indexable:
                fid = int(rng.integers(-3, 60))
                while fid in used_ids:
                    fid = int(rng.integers(-3, 2000))
            o['fid'] = fid
            bad = None
            if rng.random() < invalid_rate:
                bad = str(rng.choice(['missing_required', 'fs', 'id']))
                if bad == 'missing_required':
                    o['bad'] = 'missing_required'
                elif bad == 'fs':
                    o['extra'] = not extra
                else:
                    o['fid'] = None if indexable else int(rng.integers(0, 50))
            if bad is None and fid is not None:
                used_ids.add(fid)
            tag += 1
            n_added += 1
            ops.append(o)
        elif r < 0.70:
            hi = max(n_added, 1)
            i = int(rng.integers(0, hi + 2)) if rng.random() < 0.85 else int(rng.integers(0, 3))
            ops.append({'op': 'get', 'i': i})
        elif r < 0.76:
            ops.append({'op': 'len'})
        elif r < 0.81:
            m = rng.random()
            ops.append({'op': 'iter'} if m < 0.55 else {'op': 'iter', 'mode': 'zip' if m < 0.75 else 'suspended' if m < 0.92 else 'nested'})
        elif r < 0.85:
            ops.append({'op': 'sync'})
        elif r < 0.93 and indexable:
            if used_ids and rng.random() < 0.8:
                fid = int(rng.choice(sorted(used_ids)))
            else:
                fid = int(rng.integers(-5, 70))
            ops.append({'op': 'get_flight', 'fid': fid})
        elif r < 0.99:
            if mem:
                continue
            mode = 'append' if rng.random() < 0.6 else 'read'
            ops.append({'op': 'open_append' if mode == 'append' else 'open_read', 'cache_mb': int(rng.choice([1, 1, 2]))})
        else:
            ops.append({'op': 'close'})
            if mem:
                break
            mode = 'closed'
            m2 = 'open_append' if rng.random() < 0.5 else 'open_read'
            mode = 'append' if m2 == 'open_append' else 'read'
            ops.append({'op': m2, 'cache_mb': 1})
    return ops


def shrink_ops(ops: list[dict], still_fails) -> list[dict]:
    """Delta-debugging on an op list (removal only)."""
    cur = list(ops)
    chunk = max(len(cur) // 2, 1)
    while chunk >= 1:
        i = 0
        changed = False
        while i < len(cur):
            cand = cur[:i] + cur[i + chunk:]
            if cand and still_fails(cand):
                cur = cand
                changed = True
            else:
                i += chunk
        if not changed:
            chunk //= 2
    return cur


def short_sequences(alphabet: str, k: int, indexable: bool, npts: int = 40, mem: bool = False):
    """All op sequences of length k over a small alphabet, after the prefix `create; add; add`:
       A add (new distinct id, ids in non-sorted order)   L lookup latest id   O lookup oldest id   N lookup absent id
       S sync   P reopen for append   R reopen for read   G get index 0   H get last index   I iter   E len   C close+reopen append
       V save the in-memory store to the file   W add with the wrong identification status (no id in an identified store / an id
       in an unidentified one): refused"""
    import itertools

    out = []
    for word in itertools.product(alphabet, repeat=k):
        ops = [{'op': 'create', 'file': not mem, 'cache_mb': 1}]
        ids: list[int] = []
        tag = 0

        def add():
            nonlocal tag
            fid = None
            if indexable:
                fid = (50 - 7 * tag) if tag % 2 == 0 else (60 + 3 * tag)
                ids.append(fid)
            o = {'op': 'add', 'tag': tag, 'npts': npts, 'extra': False, 'fid': fid}
            tag += 1
            return o

        def wrong_add():
            # an add whose identification status is the opposite of the store's: must be refused, and change nothing
            nonlocal tag
            o = {'op': 'add', 'tag': tag, 'npts': npts, 'extra': False, 'fid': None if indexable else 7000 + tag}
            tag += 1
            return o

        ops += [add(), add()]
        for ch in word:
            if ch == 'A':
                ops.append(add())
            elif ch == 'W':
                ops.append(wrong_add())
            elif ch == 'L':
                ops.append({'op': 'get_flight', 'fid': ids[-1]})
            elif ch == 'O':
                ops.append({'op': 'get_flight', 'fid': ids[0]})
            elif ch == 'N':
                ops.append({'op': 'get_flight', 'fid': 99999})
            elif ch == 'S':
                ops.append({'op': 'sync'})
            elif ch == 'P':
                ops.append({'op': 'open_append', 'cache_mb': 1})
            elif ch == 'R':
                ops.append({'op': 'open_read', 'cache_mb': 1})
            elif ch == 'G':
                ops.append({'op': 'get', 'i': 0})
            elif ch == 'H':
                ops.append({'op': 'get', 'i': max(tag - 1, 0)})
            elif ch == 'I':
                ops.append({'op': 'iter'})
            elif ch == 'Z':
                ops.append({'op': 'iter', 'mode': 'zip'})
            elif ch == 'U':
                ops.append({'op': 'iter', 'mode': 'suspended'})
            elif ch == 'E':
                ops.append({'op': 'len'})
            elif ch == 'C':
                ops += [{'op': 'close'}, {'op': 'open_append', 'cache_mb': 1}]
            elif ch == 'V':
                ops.append({'op': 'save'})
        out.append(ops)
    return out
