"""C11 — every documented emissions option combination works or is refused by name.

Correspondence: the real `AEIC.emissions.compute_emissions` (work tree of $AEIC_REPO) against the Lean model
`Aeic.Dispatch.outcome` (lean/AeicModel/Dispatch.lean, through the compiled driver, ops `c11.*`) on the same
(configuration, data environment, trajectory) cases: outcome class, refused option/value, key sets of every part of the
inventory, the structural zeros the model predicts, `enabled_species`, and the numerical total of sampled species.

Clauses (evaluated on the implementation's own output, independent of the model):
  no_internal_error        the call returns or raises NotImplementedError / the life-cycle-data RuntimeError
  refusal_names_method     a NotImplementedError message contains the configured value of a method option
  disabled_species_absent  a species outside `enabled_species` is absent or all-zero in trajectory and LTO maps
  balanced                 total = Σ parts (+ life-cycle CO₂), part keys ⊆ total keys, total fuel = Σ component fuel
"""
from __future__ import annotations

import contextlib
import io
import itertools
import json
import math
import types
from pathlib import Path

import numpy as np

from harness import c11_options
from harness.common import CORPUS_DIR, REPO, LeanError, aeic_setup, close, f2u, fs2u, make_rng, u2f

PID = 'C11'
RULE = ('case = (emissions option combination over the value sets read from the implementation\'s enums, data environment '
        '{APU present, APU running, fuel has life-cycle data, SCOPE11 number profile present}, trajectory: fixed 6-point dummy / '
        'random synthetic 2-40 points / LegacyBuilder-simulated sample missions); quick: corpus + pairwise-covering array + '
        'all one- and two-option deviations from the defaults + random sample; thorough: the full Cartesian product on the dummy '
        'trajectory + random sample on the others. distinct = distinct (config, env, trajectory id); non-trivial = differs '
        'from the default configuration or environment')
TRUSTED = ['Lean 4.33 kernel', 'axioms propext/Classical.choice/Quot.sound', 'Mathlib v4.33 (only for C11.total_eq_sum_of_parts over ℝ)',
           'correspondence harness harness/c11.py + option translator harness/c11_options.py',
           'hand-written abstraction of emissions/{trajectory,lto,apu,gse,emission,utils}.py to key sets (lean/AeicModel/Dispatch.lean)',
           'pydantic validation of EmissionsConfig (configs outside the enum value sets are rejected at load time)',
           'numerical kernels (BFFM2, MEEM, SCOPE11, FOA3, ISA) are treated as total functions on physical inputs: their values are not modelled here (C12)']
ASSUME = ['model outcome is over key sets and structural zeros, not values; values enter only through C11.total_eq_sum_of_parts (ideal arithmetic, impl vs Float model rtol 1e-9)',
          'trajectories have at least 2 points (an empty trajectory fails in get_lifecycle_emissions independently of options)',
          'the `fuel` option is exercised with the two fuel files shipped in src/AEIC/data/fuels only',
          'scope_number=true is reached by patching scope11_profile (the code hard-wires number=None)']

FACTORS = ['climb_descent_mode', 'co2_enabled', 'h2o_enabled', 'sox_enabled', 'nox_method', 'hc_method', 'co_method',
           'pmvol_method', 'pmnvol_method', 'apu_enabled', 'gse_enabled', 'lifecycle_enabled']
ENV_KEYS = ['has_apu', 'apu_running', 'fuel_lifecycle', 'scope_number']
ENV_DEFAULT = {'has_apu': True, 'apu_running': True, 'fuel_lifecycle': True, 'scope_number': False}
MAPS = ['trajectory_indices', 'trajectory_emissions', 'lto_indices', 'lto_emissions', 'apu_indices', 'apu_emissions',
        'gse_emissions', 'total_emissions']
METHOD_OPTS = {'nox_method': 'nox', 'hc_method': 'hc', 'co_method': 'co', 'pmvol_method': 'pmvol', 'pmnvol_method': 'pmnvol',
               'climb_descent_mode': 'climb'}


# --------------------------------------------------------------------------------------------- fixtures
class Fx:
    """Everything built once per run: option space, fuels, performance models, trajectories."""

    def __init__(self, ctx, n_sim: int):
        from AEIC.config import Config, config
        from AEIC.config import emissions as ce
        from AEIC.types import Fuel, Species

        self.Config = Config
        self.Species = Species
        self.species_order = [s.name for s in Species]
        self.data = [REPO / 'tests' / 'data']
        self.space = {
            'climb_descent_mode': [m.value for m in ce.ClimbDescentMode],
            'co2_enabled': [True, False], 'h2o_enabled': [True, False], 'sox_enabled': [True, False],
            'nox_method': [m.value for m in ce.EINOxMethod], 'hc_method': [m.value for m in ce.EINOxMethod],
            'co_method': [m.value for m in ce.EINOxMethod],
            'pmvol_method': [m.value for m in ce.PMvolMethod], 'pmnvol_method': [m.value for m in ce.PMnvolMethod],
            'apu_enabled': [True, False], 'gse_enabled': [True, False], 'lifecycle_enabled': [True, False],
        }
        self.default = {}
        for k in FACTORS:
            d = ce.EmissionsConfig.model_fields[k].default
            self.default[k] = d if isinstance(d, bool) else getattr(d, 'value', d)
        import tomllib

        self.fuels = {}
        for has_lc, name in ((True, 'conventional_jetA'), (False, 'SAF')):
            with open(REPO / 'src' / 'AEIC' / 'data' / 'fuels' / f'{name}.toml', 'rb') as fp:
                self.fuels[has_lc] = Fuel.model_validate(tomllib.load(fp))
        if self.fuels[True].lifecycle_CO2 is None or self.fuels[False].lifecycle_CO2 is not None:
            ctx.notes.append('fuel files changed: life-cycle data presence differs from what the env stream assumes')
        self.trajs: dict[str, object] = {}
        self.pms: dict[str, object] = {}
        self.trajs['dummy'] = dummy_traj()
        self.pms['dummy'] = dummy_pm()
        # simulated trajectories (need the default configuration, loaded by aeic_setup)
        self.sim_ids = []
        if n_sim > 0:
            try:
                import AEIC.trajectories.builders as tb
                from AEIC.missions import Mission
                from AEIC.performance.models import PerformanceModel

                pm = PerformanceModel.load(config.file_location('performance/sample_performance_model.toml'))
                with open(config.file_location('missions/sample_missions_10.toml'), 'rb') as fp:
                    missions = Mission.from_toml(tomllib.load(fp))
                builder = tb.LegacyBuilder(options=tb.Options(iterate_mass=False))
                for i, m in enumerate(missions[:n_sim]):
                    with contextlib.redirect_stdout(io.StringIO()):
                        tr = builder.fly(pm, m)
                    self.trajs[f'sim{i}'] = tr
                    self.pms[f'sim{i}'] = pm
                    self.sim_ids.append(f'sim{i}')
            except Exception as e:  # simulation is another property's subject; never alarm from here
                ctx.notes.append(f'simulated trajectories unavailable: {type(e).__name__}: {e}')
        Config.reset()

    def synth(self, tid: str):
        """Random synthetic trajectory + performance model, a pure function of the id (replayable)."""
        if tid not in self.trajs:
            rng = make_rng(PID, 0, 'traj/' + tid)
            self.trajs[tid] = random_traj(rng)
            self.pms[tid] = random_pm(rng, tid)
        return self.trajs[tid], self.pms[tid]


def dummy_traj():
    t = types.SimpleNamespace()
    t.n_climb, t.n_cruise, t.n_descent = 2, 2, 2
    t.fuel_mass = np.array([2000.0, 1994.0, 1987.5, 1975.0, 1960.0, 1945.0])
    t.fuel_flow = np.array([0.3, 0.35, 0.55, 0.65, 0.5, 0.32])
    t.altitude = np.array([0.0, 1500.0, 6000.0, 11000.0, 9000.0, 2000.0])
    t.true_airspeed = np.array([120.0, 150.0, 190.0, 210.0, 180.0, 140.0])
    return _Traj(t)


class _Traj:
    def __init__(self, ns):
        self.__dict__.update(ns.__dict__)

    def __len__(self):
        return len(self.fuel_mass)


def random_traj(rng):
    n = int(rng.integers(2, 41))
    t = types.SimpleNamespace()
    mode = rng.integers(0, 10)
    if mode == 0:
        t.n_climb, t.n_descent = 0, 0
    elif mode == 1:
        t.n_climb = int(rng.integers(0, n + 1))
        t.n_descent = n - t.n_climb
    else:
        t.n_climb = int(rng.integers(0, n // 2 + 1))
        t.n_descent = int(rng.integers(0, n - t.n_climb + 1))
    t.n_cruise = n - t.n_climb - t.n_descent
    burn = rng.uniform(0.5, 40.0, n)
    if rng.random() < 0.3:
        burn[rng.integers(0, n)] = 0.0
    t.fuel_mass = 3000.0 + float(burn.sum()) - np.cumsum(burn) + burn[0]
    t.fuel_flow = rng.uniform(0.2, 1.5, n)
    t.altitude = rng.uniform(0.0, 12500.0, n)
    t.true_airspeed = rng.uniform(100.0, 250.0, n)
    return _Traj(t)


def _edb_lto_apu(scale, uid):
    from AEIC.performance.apu import APU
    from AEIC.performance.edb import EDBEntry
    from AEIC.performance.types import LTOPerformance, ThrustModeValues as V

    s = scale
    ff = V(0.25 * s[0], 0.5 * s[0], 0.9 * s[0], 1.2 * s[0])
    edb = EDBEntry(engine='Test Engine', uid=uid, engine_type='TF', BP_Ratio=5.0 * s[1], rated_thrust=100.0, fuel_flow=ff,
                   CO_EI_matrix=V(20.0 * s[2], 15.0 * s[2], 10.0 * s[2], 5.0 * s[2]),
                   HC_EI_matrix=V(4.0 * s[3], 3.0 * s[3], 2.0 * s[3], 1.0 * s[3]),
                   EI_NOx_matrix=V(8.0 * s[4], 12.0 * s[4], 26.0 * s[4], 32.0 * s[4]),
                   SN_matrix=V(6.0 * s[5], 8.0 * s[5], 11.0 * s[5], 13.0 * s[5]),
                   nvPM_mass_matrix=V(5.0, 5.5, 6.0, 6.5), nvPM_num_matrix=V(2.0e14, 2.1e14, 2.2e14, 2.3e14),
                   PR=V(22.0, 22.0, 22.0, 22.0), EImass_max=8.0, EImass_max_thrust=0.575, EInum_max=2.4e14,
                   EInum_max_thrust=0.575)
    lto = LTOPerformance(source='test', ICAO_UID=uid, rated_thrust=100.0e3, thrust_pct=V(7, 30, 85, 100), fuel_flow=ff,
                         EI_NOx=V(8.0 * s[4], 12.0 * s[4], 32.0 * s[4], 40.0 * s[4]),
                         EI_HC=V(4.0 * s[3], 3.0 * s[3], 1.5 * s[3], 1.0 * s[3]),
                         EI_CO=V(20.0 * s[2], 10.0 * s[2], 3.0 * s[2], 2.0 * s[2]))
    apu = APU(name='Test APU', defra='00000', fuel_kg_per_s=0.03 * s[6], PM10_g_per_kg=0.4 * s[7], NOx_g_per_kg=0.05,
              HC_g_per_kg=0.02, CO_g_per_kg=0.03)
    return edb, lto, apu


def dummy_pm():
    from AEIC.types import AircraftClass

    edb, lto, apu = _edb_lto_apu([1.0] * 8, 'C11DUMMY')
    return types.SimpleNamespace(edb=edb, lto=lto, apu=apu, aircraft_class=AircraftClass.WIDE, number_of_engines=2)


def random_pm(rng, tid):
    from AEIC.types import AircraftClass

    scale = list(rng.uniform(0.8, 1.25, 8))
    if rng.random() < 0.2:
        scale[7] = 0.0  # PM10 below the sulfate index: max(…, 0) branch of the APU
    edb, lto, apu = _edb_lto_apu(scale, 'C11-' + tid)
    cls = list(AircraftClass)[int(rng.integers(0, len(AircraftClass)))]
    return types.SimpleNamespace(edb=edb, lto=lto, apu=apu, aircraft_class=cls, number_of_engines=int(rng.integers(1, 5)))


class PMProxy:
    """performance model with the APU replaced (env has_apu / apu_running)."""

    def __init__(self, pm, apu):
        self._pm = pm
        self.apu = apu

    def __getattr__(self, k):
        return getattr(self._pm, k)


@contextlib.contextmanager
def scope_number_patch(on: bool):
    """env scope_number=true: make scope11_profile return a number profile (the code hard-wires None)."""
    if not on:
        yield
        return
    import AEIC.emissions.lto as L
    import AEIC.emissions.trajectory as T
    from AEIC.emissions.utils import Scope11Profile
    from AEIC.performance.types import ThrustModeValues as V

    orig_l, orig_t = L.scope11_profile, T.scope11_profile

    def patched(edb):
        p = orig_l(edb)
        return Scope11Profile(p.mass, V(1.0e14, 1.1e14, 1.2e14, 1.3e14))

    L.scope11_profile = patched
    T.scope11_profile = patched
    try:
        yield
    finally:
        L.scope11_profile, T.scope11_profile = orig_l, orig_t


# --------------------------------------------------------------------------------------------- implementation side
def classify_exception(x: BaseException, cfg: dict) -> dict:
    import re

    msg = str(x)
    low = msg.lower()
    mislabelled = None
    mm = re.search(r"ei_([a-z0-9]+)_method\s*'([^']*)'", low)
    if mm and (mm.group(1) + '_method') in cfg and str(cfg[mm.group(1) + '_method']).lower() != mm.group(2):
        # the message says "<option> '<value>' is not supported" with a value that option does not have in this configuration
        mislabelled = f"the error names {mm.group(1)}_method but quotes '{mm.group(2)}', while the configuration has {mm.group(1)}_method = {cfg[mm.group(1) + '_method']!r}"
    if isinstance(x, NotImplementedError) and mislabelled:
        return {'class': 'refused', 'option': None, 'value': None, 'type': 'NotImplementedError', 'message': msg[:160], 'mislabelled': mislabelled}
    if isinstance(x, NotImplementedError):
        named = [o for o in METHOD_OPTS if isinstance(cfg.get(o), str)
                 and re.search(r'(?<![a-z0-9])' + re.escape(cfg[o]) + r'(?![a-z0-9])', low)]
        # several options can share the value: prefer the one whose own name is in the message (longest name wins);
        # without such a hint every option that has the named value is a candidate
        pick = sorted([o for o in named if METHOD_OPTS[o] in low], key=lambda o: -len(METHOD_OPTS[o]))
        if pick:
            return {'class': 'refused', 'option': pick[0], 'value': cfg[pick[0]], 'candidates': [pick[0]], 'type': 'NotImplementedError'}
        if named:
            return {'class': 'refused', 'option': named[0], 'value': cfg[named[0]], 'candidates': named, 'type': 'NotImplementedError'}
        return {'class': 'refused', 'option': None, 'value': None, 'type': 'NotImplementedError', 'message': msg[:120]}
    if isinstance(x, RuntimeError) and 'lifecycle' in low and 'not available' in low:
        return {'class': 'refused', 'option': 'lifecycle_enabled', 'value': 'true', 'type': 'RuntimeError'}
    return {'class': 'internal', 'kind': type(x).__name__, 'message': msg[:120]}


def tmv_values(v):
    """ThrustModeValues → 4 floats in ThrustMode order."""
    from AEIC.performance.types import ThrustMode

    return [float(v[m]) for m in ThrustMode]


def as_floats(v):
    if isinstance(v, np.ndarray):
        return [float(x) for x in v.ravel()]
    if isinstance(v, (int, float, np.floating)):
        return [float(v)]
    return tmv_values(v)


def run_impl(fx: Fx, case: dict):
    """Run compute_emissions on one case. Returns (record, emissions object or None, context dict)."""
    from AEIC.config import config
    from AEIC.emissions import compute_emissions

    cfg, env, tid = case['cfg'], case['env'], case['traj']
    if tid.startswith('syn'):
        traj, pm = fx.synth(tid)
    else:
        traj, pm = fx.trajs[tid], fx.pms[tid]
    apu = pm.apu
    if not env['has_apu']:
        apu = None
    elif not env['apu_running']:
        apu = apu.model_copy(update={'fuel_kg_per_s': 0.0})
    pmx = PMProxy(pm, apu)
    fuel = fx.fuels[bool(env['fuel_lifecycle'])]
    em = None
    info = {'traj': traj, 'pm': pmx, 'fuel': fuel}
    try:
        fx.Config.load(emissions=dict(cfg), data_path_overrides=fx.data)
    except Exception as x:  # the option combination is rejected at load time
        with contextlib.suppress(Exception):
            fx.Config.reset()
        return {'class': 'load-rejected', 'kind': type(x).__name__, 'message': str(x)[:120]}, None, info
    try:
        enabled = sorted((s.name for s in config.emissions.enabled_species), key=fx.species_order.index)
        try:
            with contextlib.redirect_stdout(io.StringIO()), scope_number_patch(bool(env['scope_number'])):
                em = compute_emissions(pmx, fuel, traj)
        except Exception as x:  # noqa: BLE001 — the outcome class is the observation
            rec = classify_exception(x, cfg)
            rec['enabled'] = enabled
            return rec, None, info
    finally:
        fx.Config.reset()
    rec = {'class': 'ok', 'enabled': enabled, 'keys': {}, 'allzero': {}, 'lifecycle': bool(em.lifecycle_co2 != 0.0)}
    for m in MAPS:
        sv = getattr(em, m)
        names = sorted((s.name for s in sv.keys()), key=fx.species_order.index)
        rec['keys'][m] = names
        rec['allzero'][m] = [s.name for s in fx.Species if s in sv and all(v == 0.0 for v in as_floats(sv[s]))]
    return rec, em, info


# --------------------------------------------------------------------------------------------- clauses on the implementation
SWITCH_GROUPS = [('co2_enabled', ['CO2']), ('h2o_enabled', ['H2O']), ('sox_enabled', ['SOx', 'SO2', 'SO4']),
                 ('nox_method', ['NOx', 'NO', 'NO2', 'HONO']), ('hc_method', ['HC']), ('co_method', ['CO']),
                 ('pmvol_method', ['PMvol', 'OCic']), ('pmnvol_method', ['PMnvol', 'PMnvolGMD', 'PMnvolN'])]


def switched_off(cfg: dict) -> set[str]:
    """Species whose documented switch is off: flag false, or method "none"."""
    off = set()
    for opt, species in SWITCH_GROUPS:
        v = cfg[opt]
        if v is False or v == 'none':
            off |= set(species)
    return off


def clauses(fx: Fx, case: dict, rec: dict, em, info) -> list[tuple[str, str]]:
    out = []
    cfg = case['cfg']
    if rec['class'] == 'load-rejected':
        out.append(('no_internal_error', f"documented option combination rejected at load: {rec['kind']}: {rec['message']}"))
        return out
    if rec['class'] == 'internal':
        out.append(('no_internal_error', f"{rec['kind']}: {rec['message']}"))
        return out
    if rec['class'] == 'refused':
        if rec.get('mislabelled'):
            out.append(('refusal_names_method', rec['mislabelled'] + f" ({rec.get('message')})"))
        elif rec['option'] is None:
            out.append(('refusal_names_method', f"{rec['type']} does not name a configured method: {rec.get('message')}"))
        return out
    Species = fx.Species
    # disabled species contribute nothing to trajectory and LTO parts ("switched off" read from the raw option values,
    # not from the implementation's own enabled_species, which is compared with the model separately)
    off = switched_off(cfg)
    for m in ('trajectory_indices', 'trajectory_emissions', 'lto_indices', 'lto_emissions'):
        for s in rec['keys'][m]:
            if s in off and s not in rec['allzero'][m]:
                out.append(('disabled_species_absent', f'{s} is switched off but {m}[{s}] is present and non-zero'))
    # balanced: totals
    apu_on, gse_on = bool(cfg['apu_enabled']), bool(cfg['gse_enabled'])
    part_keys = set()
    for m in ('trajectory_emissions', 'lto_emissions', 'apu_emissions', 'gse_emissions'):
        part_keys |= set(rec['keys'][m])
    missing = part_keys - set(rec['keys']['total_emissions'])
    if missing:
        out.append(('balanced', f'species {sorted(missing)} appear in a part but not in the totals'))
    for s in Species:
        if s not in em.total_emissions:
            continue
        parts = []
        if s in em.trajectory_emissions:
            parts += as_floats(em.trajectory_emissions[s])
        if s in em.lto_emissions:
            parts += tmv_values(em.lto_emissions[s])
        if apu_on and s in em.apu_emissions:
            parts.append(float(em.apu_emissions[s]))
        if gse_on and s in em.gse_emissions:
            parts.append(float(em.gse_emissions[s]))
        if s == Species.CO2:
            parts.append(float(em.lifecycle_co2))
        exp = math.fsum(parts)
        scale = max([abs(p) for p in parts] + [0.0])
        got = float(em.total_emissions[s])
        if not close(got, exp, rtol=1e-9, atol=1e-12 * scale):
            out.append(('balanced', f'total[{s.name}]={got!r} but the parts sum to {exp!r}'))
    # life-cycle term applied exactly when CO2 and life-cycle are on
    want_lc = bool(cfg['co2_enabled']) and bool(cfg['lifecycle_enabled'])
    if want_lc != rec['lifecycle']:
        out.append(('balanced', f'life-cycle CO2 applied={rec["lifecycle"]} but co2_enabled={cfg["co2_enabled"]} lifecycle_enabled={cfg["lifecycle_enabled"]}'))
    # balanced: fuel
    try:
        from AEIC.emissions.lto import _LTO_TIMS
        from AEIC.performance.types import ThrustMode

        traj, pm, fuel = info['traj'], info['pm'], info['fuel']
        n = len(traj)
        lo, hi = (0, n) if cfg['climb_descent_mode'] == 'trajectory' else (traj.n_climb, n - traj.n_descent)
        fb = np.asarray(em.fuel_burn_per_segment, dtype=float)
        comp = [float(x) for x in fb[slice(lo, hi)]]
        for mode in ThrustMode:
            if cfg['climb_descent_mode'] == 'trajectory' and mode in (ThrustMode.APPROACH, ThrustMode.CLIMB):
                continue
            comp.append(float(_LTO_TIMS[mode]) * float(pm.lto.fuel_flow[mode]))
        if apu_on and pm.apu is not None and Species.H2O in em.apu_emissions and float(fuel.EI_H2O) != 0.0:
            comp.append(float(em.apu_emissions[Species.H2O]) / float(fuel.EI_H2O))
        if gse_on and Species.CO2 in em.gse_emissions:
            comp.append(float(em.gse_emissions[Species.CO2]) / float(fuel.EI_CO2))
        exp = math.fsum(comp)
        if not close(float(em.total_fuel_burn), exp, rtol=1e-9, atol=1e-9):
            out.append(('balanced', f'total_fuel_burn={float(em.total_fuel_burn)!r} but component fuel sums to {exp!r}'))
    except Exception as e:  # re-summation needs attributes another revision may rename: not a verdict
        out.append(('__note__', f'fuel balance not evaluated: {type(e).__name__}: {e}'))
    return out


# --------------------------------------------------------------------------------------------- model side
def model_op(case: dict, rev: str = 'current') -> dict:
    return {'op': 'c11.outcome', 'cfg': case['cfg'], 'env': case['env'], 'rev': rev}


def compare(rec: dict, mod: dict) -> list[str]:
    """Differences between the implementation record and the model output (empty = agree)."""
    d = []
    if 'err' in mod:
        return [f"model cannot interpret the case: {mod['err']}"]
    mo = mod['out']
    if rec['class'] != mo['class']:
        extra = rec.get('kind') or rec.get('option') or ''
        mextra = mo.get('kind') or mo.get('option') or ''
        return [f"outcome class: impl {rec['class']}:{extra} vs model {mo['class']}:{mextra}"]
    if 'enabled' in rec and rec['enabled'] != mo['enabled']:
        d.append(f"enabled_species: impl {rec['enabled']} vs model {mo['enabled']}")
    if rec['class'] == 'refused':
        if mo['option'] not in rec.get('candidates', [rec['option']]) or rec['value'] != mo['value']:
            d.append(f"refusal names {rec['option']}={rec['value']} vs model {mo['option']}={mo['value']}")
    elif rec['class'] == 'internal':
        if rec['kind'] != mo['kind']:
            d.append(f"internal error kind: impl {rec['kind']} vs model {mo['kind']}")
    elif rec['class'] == 'ok':
        for m in MAPS:
            if rec['keys'][m] != mo['keys'][m]:
                a, b = set(rec['keys'][m]), set(mo['keys'][m])
                d.append(f'{m} keys: impl-only {sorted(a - b)} model-only {sorted(b - a)}')
            for s in mo['zeros'].get(m, []):
                if s in rec['keys'][m] and s not in rec['allzero'][m]:
                    d.append(f'{m}[{s}]: model says structurally zero, implementation value is non-zero')
        if rec['lifecycle'] != mo['lifecycle']:
            d.append(f"life-cycle applied: impl {rec['lifecycle']} vs model {mo['lifecycle']}")
    return d


def total_ops(fx: Fx, case: dict, em, rng) -> list[tuple[dict, float, str]]:
    """Numerical correspondence of sum_total_emissions for a few species of one inventory."""
    Species = fx.Species
    cfg = case['cfg']
    ops = []
    pick = rng.choice(len(Species), size=3, replace=False)
    for i in pick:
        s = list(Species)[int(i)]
        if s not in em.total_emissions:
            continue
        op = {'op': 'c11.total', 'apu_on': bool(cfg['apu_enabled']), 'gse_on': bool(cfg['gse_enabled']),
              'traj': fs2u(as_floats(em.trajectory_emissions[s])) if s in em.trajectory_emissions else None,
              'lto': fs2u(tmv_values(em.lto_emissions[s])) if s in em.lto_emissions else None,
              'apu': f2u(em.apu_emissions[s]) if s in em.apu_emissions else None,
              'gse': f2u(em.gse_emissions[s]) if s in em.gse_emissions else None,
              'lifecycle': f2u(em.lifecycle_co2) if (s == Species.CO2 and em.lifecycle_co2 != 0.0) else None}
        ops.append((op, float(em.total_emissions[s]), s.name))
    return ops


# --------------------------------------------------------------------------------------------- generators
def pairwise_array(space: dict, rng) -> list[dict]:
    """Greedy pairwise-covering array over the option space."""
    keys = list(space)
    uncovered = set()
    for a, b in itertools.combinations(range(len(keys)), 2):
        for va in space[keys[a]]:
            for vb in space[keys[b]]:
                uncovered.add((a, va, b, vb))
    rows = []
    while uncovered:
        best, best_gain = None, -1
        for _ in range(40):
            cand = {k: space[k][int(rng.integers(0, len(space[k])))] for k in keys}
            # seed the candidate with one uncovered pair so progress is guaranteed
            a, va, b, vb = next(iter(uncovered))
            cand[keys[a]], cand[keys[b]] = va, vb
            gain = sum(1 for (x, vx, y, vy) in uncovered if cand[keys[x]] == vx and cand[keys[y]] == vy)
            if gain > best_gain:
                best, best_gain = cand, gain
        rows.append(best)
        uncovered = {(x, vx, y, vy) for (x, vx, y, vy) in uncovered if not (best[keys[x]] == vx and best[keys[y]] == vy)}
    return rows


def deviations(space: dict, default: dict, order: int) -> list[dict]:
    """All configurations that differ from the default in exactly 1..order options."""
    keys = list(space)
    out = [dict(default)]
    for r in range(1, order + 1):
        for ks in itertools.combinations(keys, r):
            alts = [[v for v in space[k] if v != default[k]] for k in ks]
            for vs in itertools.product(*alts):
                c = dict(default)
                c.update(dict(zip(ks, vs)))
                out.append(c)
    return out


def random_cfg(space, rng):
    return {k: space[k][int(rng.integers(0, len(space[k])))] for k in space}


def random_env(rng):
    return {'has_apu': bool(rng.random() < 0.85), 'apu_running': bool(rng.random() < 0.8),
            'fuel_lifecycle': bool(rng.random() < 0.8), 'scope_number': bool(rng.random() < 0.15)}


def case_key(case):
    return json.dumps([[case['cfg'][k] for k in FACTORS], [case['env'][k] for k in ENV_KEYS], case['traj']])


# --------------------------------------------------------------------------------------------- shrinking
def shrink(fx: Fx, case: dict, signature) -> dict:
    """Move the failing case towards (default config, default env, dummy trajectory) while `signature` persists."""

    def sig(c):
        rec, em, info = run_impl(fx, c)
        cl = [c0 for c0 in clauses(fx, c, rec, em, info) if c0[0] != '__note__']
        return (cl[0][0], rec['class'], rec.get('kind')) if cl else None

    cur = json.loads(json.dumps(case))
    for tid in ('dummy',):
        t = dict(cur, traj=tid)
        if sig(t) == signature:
            cur = t
    for k in ENV_KEYS:
        if cur['env'][k] != ENV_DEFAULT[k]:
            t = json.loads(json.dumps(cur))
            t['env'][k] = ENV_DEFAULT[k]
            if sig(t) == signature:
                cur = t
    changed = True
    while changed:
        changed = False
        for k in FACTORS:
            if cur['cfg'][k] != fx.default[k]:
                t = json.loads(json.dumps(cur))
                t['cfg'][k] = fx.default[k]
                if sig(t) == signature:
                    cur, changed = t, True
    return cur


# --------------------------------------------------------------------------------------------- main pipeline
def evaluate(ctx, fx: Fx, cases: list[dict], stream: str, seen_sigs: dict, numeric_rng=None):
    """impl + model + clauses for a batch of cases."""
    recs = []
    tot_ops = []
    for case in cases:
        rec, em, info = run_impl(fx, case)
        cl = clauses(fx, case, rec, em, info)
        for name, detail in cl:
            if name == '__note__':
                if detail not in ctx.notes and len(ctx.notes) < 10:
                    ctx.notes.append(detail)
                continue
            signature = (name, rec['class'], rec.get('kind'))
            if signature not in seen_sigs:
                small = shrink(fx, case, signature)
                seen_sigs[signature] = small
                srec, sem, sinfo = run_impl(fx, small)
                scl = [c for c in clauses(fx, small, srec, sem, sinfo) if c[0] == name]
                ctx.clause_fail(name, {'case': small, 'observed': _obs(srec), 'shrunk_from': case},
                                detail=(scl[0][1] if scl else detail))
            elif len(ctx.violations) < 200:
                ctx.clause_fail(name, {'case': case, 'observed': _obs(rec)}, detail=detail)
            ctx.count('clause_fail:' + name)
        if em is not None and numeric_rng is not None:
            tot_ops += [(case, *t) for t in total_ops(fx, case, em, numeric_rng)]
        recs.append(rec)
        ctx.count('impl:' + rec['class'] + (':' + str(rec.get('kind') or rec.get('option')) if rec['class'] != 'ok' else ''))
        ctx.count('stream:' + stream)
        nontrivial = case['cfg'] != fx.default or case['env'] != ENV_DEFAULT
        ctx.case(case_key(case), nontrivial=nontrivial,
                 sample={'cfg': {k: v for k, v in case['cfg'].items() if v != fx.default[k]}, 'env': case['env'],
                         'traj': case['traj'], 'outcome': _obs(rec)})
    # model
    mods = ctx.driver.run([model_op(c) for c in cases])
    diverging = []
    for case, rec, mod in zip(cases, recs, mods):
        if rec['class'] == 'load-rejected' and 'err' in mod:
            continue  # both sides reject a value outside the documented sets
        diffs = compare(rec, mod)
        if diffs:
            diverging.append((case, rec, diffs))
    if diverging:
        # which code revision does the implementation agree with? (diagnostic only)
        revs = ['pinned', 'thrust_only', 'apu_only']
        alt = ctx.driver.run([model_op(c, r) for (c, _, _) in diverging[:50] for r in revs])
        for i, (case, rec, diffs) in enumerate(diverging):
            note = ''
            if i < 50:
                agree = [r for j, r in enumerate(revs) if not compare(rec, alt[i * len(revs) + j])]
                if agree:
                    note = f' [implementation agrees with model revision {agree[0]}]'
            ctx.diverge('Dispatch.outcome vs compute_emissions', {'case': case, 'observed': _obs(rec)}, '; '.join(diffs) + note)
    # numeric totals
    if tot_ops:
        outs = ctx.driver.run([t[1] for t in tot_ops])
        for (case, op, want, sname), o in zip(tot_ops, outs):
            if 'err' in o:
                ctx.diverge('Dispatch.total vs sum_total_emissions', {'case': case, 'species': sname}, o['err'])
                continue
            got = u2f(o['out'])
            if not close(got, want, rtol=1e-9, atol=1e-12 * abs(want) + 1e-300):
                ctx.diverge('Dispatch.total vs sum_total_emissions', {'case': case, 'species': sname},
                            f'model {got!r} vs impl {want!r}')
        ctx.count('numeric_totals', len(tot_ops))
    return diverging


def _obs(rec):
    if rec['class'] == 'ok':
        return {'class': 'ok', 'trajectory_keys': rec['keys']['trajectory_indices'], 'lto_keys': rec['keys']['lto_indices']}
    return {k: v for k, v in rec.items() if k in ('class', 'kind', 'option', 'value', 'type', 'message')}


def widened_search(ctx, fx: Fx, diverging, seen_sigs):
    """After a divergence without clause failure: the diverging configurations under every environment and trajectory."""
    cases, seen = [], set()
    trajs = ['dummy', 'syn-w0', 'syn-w1'] + fx.sim_ids[:1]
    for case, _, _ in diverging[:40]:
        for env_bits in itertools.product([True, False], repeat=4):
            for tid in trajs:
                c = {'cfg': case['cfg'], 'env': dict(zip(ENV_KEYS, env_bits)), 'traj': tid}
                k = case_key(c)
                if k not in seen:
                    seen.add(k)
                    cases.append(c)
    cases = cases[:4000]
    for c in cases:
        rec, em, info = run_impl(fx, c)
        for name, detail in clauses(fx, c, rec, em, info):
            if name == '__note__':
                continue
            signature = (name, rec['class'], rec.get('kind'))
            if signature not in seen_sigs:
                seen_sigs[signature] = c
                ctx.clause_fail(name, {'case': shrink(fx, c, signature), 'observed': _obs(rec), 'found_by': 'widened search'}, detail=detail)
    ctx.count('widened_search_cases', len(cases))


def static_checks(ctx, fx: Fx):
    """Model ↔ source facts that do not depend on a case."""
    sp = ctx.driver.outs([{'op': 'c11.space'}])[0]
    card = 1
    for k in FACTORS:
        card *= len(fx.space[k])
    if sp['card'] != card or sp['all_length'] != card:
        ctx.diverge('option space size', {'impl': card, 'model': sp}, 'the model\'s option space differs from the implementation\'s enums')
    if sp['species'] != fx.species_order:
        ctx.diverge('Species member order', {'impl': fx.species_order, 'model': sp['species']}, '')
    from AEIC.config import emissions as ce

    fields = [k for k in ce.EmissionsConfig.model_fields if k != 'fuel']
    if sorted(fields) != sorted(sp['fields']):
        ctx.diverge('EmissionsConfig fields', {'impl': fields, 'model': sp['fields']}, 'an option was added or removed')
    ctx.extra['option_space'] = card


def load_corpus():
    d = CORPUS_DIR / PID
    out = []
    if d.exists():
        for p in sorted(d.glob('*.json')):
            j = json.loads(p.read_text())
            out.append((p.name, j))
    return out


def main(ctx) -> int:
    try:
        c11_options.regenerate()
    except Exception as e:
        ctx.broken_obligation(f'option translator: {type(e).__name__}: {e}')
    ctx.proofs()
    aeic_setup()
    thorough = ctx.tier == 'thorough'
    fx = Fx(ctx, n_sim=10 if thorough else 3)
    rng = ctx.rng
    seen_sigs: dict = {}
    all_div = []
    try:
        static_checks(ctx, fx)
        # 1. corpus (minimised past failures) first
        corpus = [dict(j['case']) for _, j in load_corpus() if 'case' in j]
        all_div += evaluate(ctx, fx, corpus, 'corpus', seen_sigs, rng)
        # 2. structured streams
        cases = []
        for cfg in deviations(fx.space, fx.default, 2):
            cases.append({'cfg': cfg, 'env': dict(ENV_DEFAULT), 'traj': 'dummy'})
        all_div += evaluate(ctx, fx, cases, 'deviations<=2', seen_sigs, None)
        cases = []
        for cfg in pairwise_array(fx.space, rng):
            for env_bits in itertools.product([True, False], repeat=4):
                cases.append({'cfg': cfg, 'env': dict(zip(ENV_KEYS, env_bits)), 'traj': 'dummy'})
        all_div += evaluate(ctx, fx, cases, 'pairwise x env', seen_sigs, rng)
        if thorough:
            # the full Cartesian product on the dummy trajectory, default environment
            keys = FACTORS
            cases = []
            for vs in itertools.product(*[fx.space[k] for k in keys]):
                cases.append({'cfg': dict(zip(keys, vs)), 'env': dict(ENV_DEFAULT), 'traj': 'dummy'})
                if len(cases) >= 4000:
                    all_div += evaluate(ctx, fx, cases, 'full product', seen_sigs, None)
                    cases = []
            all_div += evaluate(ctx, fx, cases, 'full product', seen_sigs, None)
            # the full product once more, on simulated / random synthetic trajectories under random environments
            cases = []
            alt = fx.sim_ids + [f'synP-{i}' for i in range(20)]
            for vs in itertools.product(*[fx.space[k] for k in keys]):
                cases.append({'cfg': dict(zip(keys, vs)), 'env': random_env(rng), 'traj': alt[int(rng.integers(0, len(alt)))]})
                if len(cases) >= 4000:
                    all_div += evaluate(ctx, fx, cases, 'full product (random env, other trajectories)', seen_sigs, None)
                    cases = []
            all_div += evaluate(ctx, fx, cases, 'full product (random env, other trajectories)', seen_sigs, None)
            ctx.extra['exhaustive'] = True
        # 3. random sample over config × env × trajectories
        n = ctx.scale(quick=6000, thorough=20000)
        n_syn = ctx.scale(quick=40, thorough=300)
        tids = ['dummy'] + [f'syn{ctx.seed}-{i}' for i in range(n_syn)] + fx.sim_ids
        cases = []
        for i in range(n):
            u = rng.random()
            if u < 0.15:
                tid = 'dummy'
            elif u < 0.75 or not fx.sim_ids:
                tid = tids[1 + int(rng.integers(0, n_syn))]
            else:
                tid = fx.sim_ids[int(rng.integers(0, len(fx.sim_ids)))]
            cases.append({'cfg': random_cfg(fx.space, rng), 'env': random_env(rng), 'traj': tid})
        all_div += evaluate(ctx, fx, cases, 'random', seen_sigs, rng)
        # 4. search for a failing input when something diverged but no clause failed
        if (all_div or ctx.broken) and not ctx.violations:
            widened_search(ctx, fx, all_div if all_div else [({'cfg': c}, None, None) for c in deviations(fx.space, fx.default, 1)], seen_sigs)
    except LeanError as e:
        ctx.broken_obligation(f'driver: {e}')
    finally:
        with contextlib.suppress(Exception):
            fx.Config.reset()
    return ctx.finish(RULE, TRUSTED, ASSUME)


def replay(ctx, path) -> int:
    """Re-run one recorded case (a violation replay file or a corpus entry) against the implementation."""
    j = json.loads(Path(path).read_text())
    node = j.get('first', j)
    case = node.get('case', node)
    if 'case' in case:
        case = case['case']
    if 'cfg' not in case:
        print(f'[{PID}] replay file has no concrete case (kind={j.get("kind")}); broken obligations: {j.get("broken_obligations")}')
        return 0
    aeic_setup()
    fx = Fx(ctx, n_sim=(int(case['traj'][3:]) + 1) if case['traj'].startswith('sim') else 0)
    rec, em, info = run_impl(fx, case)
    cl = [c for c in clauses(fx, case, rec, em, info) if c[0] != '__note__']
    print(f'[{PID}] replay case: cfg(non-default)={ {k: v for k, v in case["cfg"].items() if v != fx.default[k]} } env={case["env"]} traj={case["traj"]}')
    print(f'[{PID}] implementation outcome: {_obs(rec)}')
    if cl:
        for name, detail in cl:
            print(f'[{PID}] clause {name} FAILS: {detail}')
        return 1
    print(f'[{PID}] all clauses hold on this case')
    return 0
