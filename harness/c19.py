"""C19 — BADA-3 fuel-burn integration keeps mass, thrust and fuel flow consistent.

Correspondence of `AEIC.BADA.model` / `AEIC.BADA.fuel_burn_base` with the Lean model `AeicModel/Bada.lean`
(executed on Float through the compiled driver) and evaluation of the property's clauses on the
implementation's own output.  Four streams of cases:

* ``engine``  engine-type dispatch (`create_engine_model`), incl. refused types;
* ``points``  every intermediate of `calculate_specific_ground_range` on generated parameter sets / points;
* ``update``  `update_mass_vector(_backward)` on explicit specific-ground-range vectors (incl. the `< 1` rule,
              zero-length segments, scalar / uniform / non-uniform segment lengths);
* ``driver``  the four `iterate_flight_simulation_*` drivers on climb–cruise–descent profiles.
"""
from __future__ import annotations

import json
import math
from pathlib import Path

import numpy as np

from harness.common import CORPUS_DIR, LeanError, aeic_setup, close, f2u, fs2u, make_rng, u2fs

PID = 'C19'

RULE = ('cases drawn from ctx.rng: (engine) the 3 implemented engine types + refused names; (points) plausible BADA-3 '
        'coefficient sets per engine type x points covering both sides of every guard of the model (thrust limited / '
        'not, negative / not, cruise flag, above / below h_p_des, tropopause, temperature clip 0 / linear / 0.4, '
        'zero fuel flow); (update) explicit specific-ground-range vectors incl. values <1, =1, 0, negative, with '
        'scalar, uniform and non-uniform segment lengths incl. zero-length segments; (driver) climb-cruise-descent '
        'profiles x 4 drivers x n_iter in 0..12. A case is non-trivial when at least one non-default branch fired; '
        'distinct = distinct generated inputs')
TRUSTED = ['Lean 4.33 kernel', 'axioms propext/Classical.choice/Quot.sound', 'Mathlib v4.33',
           'correspondence harness harness/c19.py (Float model vs implementation, rtol 1e-9)',
           'numpy where/clip/maximum/cumsum/divide(where=) and scipy cumulative_trapezoid as re-modelled in Bada.lean',
           'AEIC.utils.standard_atmosphere (ISA pressure/temperature; re-modelled, validated by correspondence)',
           'translator for units/constants (METERS_TO_FEET, MPS_TO_KNOTS, g0, R_air, T0, p0, beta_tropo, h_p_tropo)']
ASSUME = ['IEEE rounding is not modelled: theorems are over the reals; implementation vs Float model compared with '
          'rtol 1e-9 (pow/exp of the ISA pressure may differ by 1 ulp)',
          'the trapezoid clause is about the fuel flow evaluated at the previous fixed-point iterate (the specific '
          'ground range vector the code used for its last mass update)',
          'monotonicity needs segment lengths >= 0; MTOW clause for n_iter = 0 needs estimate <= MTOW',
          'NaN inputs and profile vectors of unequal length are outside the model']

PARAM_KEYS = ['c_fcr', 'c_f1', 'c_f2', 'c_d0cr', 'c_d2cr', 'S_ref', 'c_tc1', 'c_tc2', 'c_tc3', 'c_tc4', 'c_tc5',
              'c_tcr', 'c_tdes_low', 'c_tdes_high', 'h_p_des']
ENGINES = ['Jet', 'Turboprop', 'Piston']
DRIVERS = ['const_initial', 'const_final', 'fd_fraction', 'fd_value']
PROFILE_KEYS = ['temperature', 'altitude', 'v_tas', 'rocd', 'acceleration', 'groundspeed']


# ----------------------------------------------------------------------------- generators
def gen_params(rng, engine: str) -> dict:
    u = rng.uniform
    p = {
        'c_fcr': float(u(0.85, 1.1)), 'c_d0cr': float(u(0.015, 0.04)), 'c_d2cr': float(u(0.02, 0.06)),
        'S_ref': float(u(20.0, 500.0)), 'c_tc2': float(u(3.0e4, 7.0e4)), 'c_tc4': float(u(-10.0, 15.0)),
        'c_tc5': float(u(0.0, 0.015)), 'c_tcr': 0.95, 'c_tdes_low': float(u(0.02, 0.2)),
        'c_tdes_high': float(u(0.02, 0.2)), 'h_p_des': float(u(3000.0, 35000.0)),
    }
    if engine == 'Jet':
        p.update(c_tc1=float(u(5e4, 6e5)), c_tc3=float(u(0.0, 1e-10)), c_f1=float(u(0.3, 1.2)), c_f2=float(u(300.0, 5000.0)))
    elif engine == 'Turboprop':
        p.update(c_tc1=float(u(1e6, 1.5e7)), c_tc3=float(u(0.0, 2000.0)), c_f1=float(u(0.3, 1.0)), c_f2=float(u(600.0, 3000.0)))
    else:
        p.update(c_tc1=float(u(3e3, 3e4)), c_tc3=float(u(0.0, 1e5)), c_f1=float(u(0.3, 3.0)), c_f2=float(u(300.0, 5000.0)))
    r = rng.random()
    if r < 0.06:
        p['c_tc5'] = float(u(-0.01, 0.0))  # np.maximum(0, c_tc5) branch
    elif r < 0.10:
        p['c_tc5'] = 0.0
    r = rng.random()
    if r < 0.04:
        p['c_f1'] = 0.0  # zero fuel flow -> zero-flow guard of the specific ground range
    elif r < 0.08:
        p['c_tcr'] = float(u(0.8, 1.0))
    return p


def typical_mass(rng, P) -> float:
    return float(P['S_ref'] * rng.uniform(250.0, 650.0))


def isa_T(h):
    return 288.15 - 0.0065 * min(h, 11000.0)


def gen_points(rng, P, n: int) -> dict:
    """Unordered points hitting every guard of the thrust / fuel-flow model."""
    from AEIC.units import METERS_TO_FEET

    alt = rng.uniform(0.0, 14000.0, n)
    k = rng.random(n)
    alt = np.where(k < 0.05, 11000.0, alt)  # exactly the tropopause
    alt = np.where((k >= 0.05) & (k < 0.10), rng.uniform(11000.0, 24000.0, n), alt)
    alt = np.where((k >= 0.10) & (k < 0.13), 0.0, alt)
    # some points exactly at / around the descent-thrust switch altitude
    hsw = P['h_p_des'] / METERS_TO_FEET
    if hsw < 24000.0:
        alt = np.where((k >= 0.13) & (k < 0.17), hsw, alt)
        alt = np.where((k >= 0.17) & (k < 0.19), np.nextafter(hsw, np.inf), alt)
    dT = rng.uniform(-25.0, 35.0, n)
    kk = rng.random(n)
    dT = np.where(kk < 0.1, P['c_tc4'], dT)  # delta_T_eff == 0 exactly (when representable)
    dT = np.where((kk >= 0.1) & (kk < 0.2), P['c_tc4'] + rng.uniform(40.0, 120.0, n), dT)  # clip at 0.4 (c_tc5 ~ 0.01)
    T = np.array([isa_T(h) for h in alt]) + dT
    v = rng.uniform(60.0, 260.0, n)
    rocd = rng.uniform(-25.0, 25.0, n)
    rocd = np.where(rng.random(n) < 0.2, 0.0, rocd)
    acc = rng.uniform(-0.6, 0.6, n)
    acc = np.where(rng.random(n) < 0.4, 0.0, acc)
    gs = np.maximum(v + rng.uniform(-50.0, 50.0, n), 5.0)
    cr = rng.random(n) < 0.4
    return {'temperature': T.tolist(), 'altitude': alt.tolist(), 'v_tas': v.tolist(), 'rocd': rocd.tolist(),
            'acceleration': acc.tolist(), 'groundspeed': gs.tolist(), 'in_cruise': [bool(c) for c in cr]}


def gen_profile(rng, P, n: int) -> dict:
    """A climb – cruise – descent flight profile with n points."""
    n_cl = max(1, int(n * rng.uniform(0.15, 0.35)))
    n_de = max(1, int(n * rng.uniform(0.15, 0.35)))
    n_cr = max(0, n - n_cl - n_de)
    n_cl = n - n_cr - n_de
    if n_cl < 0:
        n_cl, n_de, n_cr = n, 0, 0
    h_cr = float(rng.uniform(3000.0, 12500.0))
    v_cr = float(rng.uniform(120.0, 250.0))
    alt = np.concatenate([np.linspace(300.0, h_cr, n_cl, endpoint=False), np.full(n_cr, h_cr),
                          np.linspace(h_cr, 300.0, n_de)])[:n]
    v = np.concatenate([np.linspace(0.55 * v_cr, v_cr, n_cl, endpoint=False), np.full(n_cr, v_cr),
                        np.linspace(v_cr, 0.5 * v_cr, n_de)])[:n]
    rocd = np.concatenate([rng.uniform(3.0, 15.0, n_cl), np.zeros(n_cr), -rng.uniform(3.0, 15.0, n_de)])[:n]
    acc = np.concatenate([rng.uniform(0.0, 0.3, n_cl), np.zeros(n_cr), -rng.uniform(0.0, 0.3, n_de)])[:n]
    cr = np.concatenate([np.zeros(n_cl, bool), np.ones(n_cr, bool), np.zeros(n_de, bool)])[:n]
    dT = float(rng.uniform(-15.0, 25.0))
    T = np.array([isa_T(h) for h in alt]) + dT
    gs = np.maximum(v + float(rng.uniform(-40.0, 40.0)), 20.0)
    return {'temperature': T.tolist(), 'altitude': alt.tolist(), 'v_tas': v.tolist(), 'rocd': rocd.tolist(),
            'acceleration': acc.tolist(), 'groundspeed': gs.tolist(), 'in_cruise': [bool(c) for c in cr]}


def gen_dx(rng, n: int, scale: float):
    """segment_distance: scalar, uniform array or non-uniform array (sometimes with zero-length segments)."""
    r = rng.random()
    if r < 0.3 or n < 2:
        return float(rng.uniform(0.2, 2.0) * scale)
    if r < 0.45:
        return [float(rng.uniform(0.2, 2.0) * scale)] * (n - 1)
    d = rng.uniform(0.05, 3.0, n - 1) * scale
    if rng.random() < 0.3:
        d[rng.integers(0, n - 1)] = 0.0
    return [float(x) for x in d]


def gen_case_points(rng, i) -> dict:
    eng = ENGINES[i % 3]
    P = gen_params(rng, eng)
    n = int(rng.integers(1, 25))
    prof = gen_points(rng, P, n)
    m = typical_mass(rng, P)
    mass = (m * rng.uniform(0.8, 1.2, n)).tolist()
    c = {'stream': 'points', 'engine': eng, 'params': P, 'profile': prof, 'mass': mass}
    if rng.random() < 0.4:
        c['warmup'] = gen_warmup(rng, prof, mass)
    return c


def gen_warmup(rng, prof: dict, mass) -> dict:
    """An earlier evaluation on the SAME model object that shares some input arrays bit-for-bit with the case and differs
    in others: the result of the case must not depend on it (BADA-3 thrust/fuel flow are functions of the current state)."""
    w = {k: list(v) for k, v in prof.items()}
    n = len(w['v_tas'])
    keys = ['v_tas', 'temperature', 'altitude', 'rocd', 'acceleration', 'groundspeed', 'in_cruise']
    change = [k for k in keys if rng.random() < 0.4] or ['v_tas']
    for k in change:
        if k == 'in_cruise':
            w[k] = [not b for b in w[k]]
        elif k == 'altitude':
            w[k] = [float(max(0.0, x + rng.uniform(-800.0, 800.0))) for x in w[k]]
        elif k == 'temperature':
            w[k] = [float(x + rng.uniform(-8.0, 8.0)) for x in w[k]]
        else:
            w[k] = [float(x * rng.uniform(0.6, 1.5) + rng.uniform(-2.0, 2.0)) for x in w[k]]
    w['groundspeed'] = [float(max(g, 5.0)) for g in w['groundspeed']]
    w['v_tas'] = [float(max(v, 30.0)) for v in w['v_tas']]
    return {'profile': w, 'mass': [float(m * rng.uniform(0.9, 1.1)) for m in mass] if rng.random() < 0.5 else list(mass),
            'changed': change}


def gen_case_update(rng, i) -> dict:
    n = int(rng.integers(1, 30))
    kind = ['fwd', 'bwd'][i % 2]
    s = rng.uniform(20.0, 900.0, n)
    k = rng.random(n)
    if rng.random() < 0.5:
        s = np.where(k < 0.08, rng.uniform(0.0, 1.0, n), s)  # below 1 m/kg -> treated as no burn
        s = np.where((k >= 0.08) & (k < 0.12), 1.0, s)  # exactly 1: burn 1 kg/m
        s = np.where((k >= 0.12) & (k < 0.16), 0.0, s)  # zero-flow guard output
        s = np.where((k >= 0.16) & (k < 0.19), -rng.uniform(0.1, 300.0, n), s)
        s = np.where((k >= 0.19) & (k < 0.22), rng.uniform(1.0, 5.0, n), s)
        s = np.where((k >= 0.22) & (k < 0.24), np.nextafter(1.0, 0.0), s)
    dx = gen_dx(rng, n, 50e3)
    return {'stream': 'update', 'kind': kind, 'sgr': [float(x) for x in s], 'dx': dx,
            'anchor': float(rng.uniform(2e3, 4e5))}


def gen_case_driver(rng, i) -> dict:
    eng = ENGINES[(i // 4) % 3] if rng.random() < 0.8 else 'Jet'
    P = gen_params(rng, eng)
    if P['c_f1'] == 0.0 and rng.random() < 0.7:
        P['c_f1'] = 0.7
    n = int(rng.integers(1, 40)) if rng.random() < 0.9 else int(rng.integers(40, 160))
    prof = gen_profile(rng, P, n)
    kind = DRIVERS[i % 4]
    m = typical_mass(rng, P)
    total = float(rng.uniform(2e5, 4e6))
    dx = gen_dx(rng, n, total / max(n - 1, 1))
    n_iter = int(rng.choice([0, 1, 1, 2, 2, 3, 4, 6, 10, 10, 12]))
    c = {'stream': 'driver', 'kind': kind, 'engine': eng, 'params': P, 'profile': prof, 'dx': dx, 'n_iter': n_iter,
         'mass': m}
    if rng.random() < 0.3:
        c['warmup'] = gen_warmup(rng, prof, [m] * n)
    if kind.startswith('fd_'):
        oew = 0.55 * m
        mpl = 0.25 * m
        mtow = float(m * rng.uniform(0.85, 1.3))
        c.update(oew=oew, mpl=mpl, load_factor=float(rng.uniform(0.3, 1.0)), mtow=mtow,
                 reserve=float(rng.uniform(0.0, 0.2)) if kind == 'fd_fraction' else float(rng.uniform(0.0, 0.05) * m),
                 mass=float(min(m * rng.uniform(0.7, 1.2), mtow)))
    return c


def gen_case_engine(rng, i) -> dict:
    names = ENGINES + ['Electric', 'jet', 'Turbofan', '', 'PISTON', None]
    return {'stream': 'engine', 'engine': names[i % len(names)]}


# ----------------------------------------------------------------------------- implementation side
def make_params(P: dict, engine):
    from AEIC.BADA.aircraft_parameters import Bada3AircraftParameters

    ap = Bada3AircraftParameters()
    d = dict(P)
    d['engine_type'] = engine
    d['ac_type'] = 'GEN'
    ap.assign_parameters_fromdict(d)
    return ap


def arrays(prof: dict):
    a = [np.array(prof[k], dtype=float) for k in PROFILE_KEYS]
    return a[0], a[1], a[2], a[3], a[4], np.array(prof['in_cruise'], dtype=bool), a[5]


def exc_kind(e: Exception) -> str:
    if isinstance(e, (ValueError, NotImplementedError)):
        return 'refused:' + type(e).__name__
    return 'internal:' + type(e).__name__


def impl_points(c: dict) -> dict:
    from AEIC.BADA.model import Bada3FuelBurnModel
    from AEIC.utils.standard_atmosphere import calculate_air_density, pressure_at_altitude_isa_bada4

    fm = Bada3FuelBurnModel(make_params(c['params'], c['engine']))
    em = fm.engine_model
    if c.get('warmup'):
        wT, wh, wv, wr, wa, wc, wg = arrays(c['warmup']['profile'])
        wm = np.array(c['warmup']['mass'], dtype=float)
        try:
            with np.errstate(all='ignore'):
                em.calculate_max_climb_thrust(wh, wv, wT)
                em.calculate_max_cruise_thrust(wh, wv, wT)
                wt = fm.calculate_thrust(wm, wT, wh, wv, wr, wa, wc)
                em.calculate_nominal_fuel_flow(wt, wv)
                fm.calculate_specific_ground_range(wm, wT, wh, wv, wr, wa, wc, wg.copy())
        except Exception:  # noqa: BLE001
            pass
    T, h, v, rocd, acc, cr, gs = arrays(c['profile'])
    m = np.array(c['mass'], dtype=float)
    n = len(m)
    bc = lambda x: np.broadcast_to(np.asarray(x, dtype=float), (n,)).tolist()  # noqa: E731
    p = pressure_at_altitude_isa_bada4(h)
    rho = calculate_air_density(p, T)
    cl = fm.calculate_cl(m, rho, v)
    drag = fm.calculate_drag(fm.calculate_cd(cl), rho, v)
    out = {'pressure': bc(p), 'drag': bc(drag)}
    out['te'] = bc(fm.calculate_thrust_by_total_energy(drag, m, v, rocd, acc))
    out['max_climb'] = bc(em.calculate_max_climb_thrust(h, v, T))
    out['max_cruise'] = bc(em.calculate_max_cruise_thrust(h, v, T))
    out['descent_high'] = bc(em.calculate_descent_thrust_high(h, v, T))
    out['descent_low'] = bc(em.calculate_descent_thrust_low(h, v, T))
    thr = fm.calculate_thrust(m, T, h, v, rocd, acc, cr)
    out['thrust'] = bc(thr)
    out['ff_nominal'] = bc(em.calculate_nominal_fuel_flow(thr, v))
    out['ff_cruise'] = bc(em.calculate_cruise_fuel_flow(thr, v))
    out['sgr'] = bc(fm.calculate_specific_ground_range(m, T, h, v, rocd, acc, cr, gs.copy()))
    return out


_UPDATE_MODEL = None


def update_model():
    """update_mass_vector* do not read the parameters; any constructed model will do."""
    global _UPDATE_MODEL
    if _UPDATE_MODEL is None:
        from AEIC.BADA.model import Bada3FuelBurnModel

        _UPDATE_MODEL = Bada3FuelBurnModel(make_params(gen_params(make_rng(PID, 0, 'upd'), 'Jet'), 'Jet'))
    return _UPDATE_MODEL


def dx_arg(dx):
    return dx if isinstance(dx, float) else np.array(dx, dtype=float)


def dx_list(dx, n: int) -> list[float]:
    return [dx] * max(n - 1, 0) if isinstance(dx, float) else list(dx)


def impl_update(c: dict) -> list[float]:
    fm = update_model()
    s = np.array(c['sgr'], dtype=float)
    mass = np.full(len(s), c['anchor'], dtype=float)
    with np.errstate(all='ignore'):
        if c['kind'] == 'fwd':
            return fm.update_mass_vector(mass, s, dx_arg(c['dx'])).tolist()
        return fm.update_mass_vector_backward(mass, s, dx_arg(c['dx'])).tolist()


def impl_driver(c: dict) -> dict:
    from AEIC.BADA.model import Bada3FuelBurnModel

    fm = Bada3FuelBurnModel(make_params(c['params'], c['engine']))
    if c.get('warmup'):
        # an earlier flight on the same model object: same altitude/temperature profile, other speeds
        wT, wh, wv, wr, wa, wc, wg = arrays(c['warmup']['profile'])
        try:
            with np.errstate(all='ignore'):
                fm.iterate_flight_simulation_constant_initial_mass(wT, wh, wv, wr, wa, wc, wg, dx_arg(c['dx']), c['mass'], n_iter=2)
        except Exception:  # noqa: BLE001
            pass
    T, h, v, rocd, acc, cr, gs = arrays(c['profile'])
    calls = []
    orig = fm.calculate_specific_ground_range

    def recording(mass, *a, **k):
        m_in = np.array(mass, dtype=float).copy()
        r = orig(mass, *a, **k)
        calls.append((m_in, np.array(r, dtype=float).copy()))
        return r

    fm.calculate_specific_ground_range = recording  # observation point named by the property (intermediates)
    args = (T, h, v, rocd, acc, cr, gs, dx_arg(c['dx']))
    k = c['kind']
    with np.errstate(all='ignore'):
        if k == 'const_initial':
            res = fm.iterate_flight_simulation_constant_initial_mass(*args, c['mass'], n_iter=c['n_iter'])
        elif k == 'const_final':
            res = fm.iterate_flight_simulation_constant_final_mass(*args, c['mass'], n_iter=c['n_iter'])
        elif k == 'fd_fraction':
            res = fm.iterate_flight_simulation_fuel_burn_dependent_initial_mass_rf_fraction(
                *args, c['mass'], c['mtow'], c['oew'], c['mpl'], c['load_factor'], c['reserve'], n_iter=c['n_iter'])
        else:
            res = fm.iterate_flight_simulation_fuel_burn_dependent_initial_mass_rf_value(
                *args, c['mass'], c['mtow'], c['oew'], c['mpl'], c['load_factor'], c['reserve'], n_iter=c['n_iter'])
    return {'mass': np.asarray(res, dtype=float).tolist(),
            'calls': [(a.tolist(), b.tolist()) for a, b in calls]}


def impl_engine(c: dict) -> str:
    from AEIC.BADA.model import Bada3FuelBurnModel

    try:
        Bada3FuelBurnModel(make_params(gen_params(make_rng(PID, 0, 'eng'), 'Jet'), c['engine']))
        return 'ok'
    except Exception as e:  # noqa: BLE001
        return exc_kind(e)


# ----------------------------------------------------------------------------- model side (ops)
def op_common(c: dict) -> dict:
    o = {'engine': c['engine']}
    o.update({k: f2u(c['params'][k]) for k in PARAM_KEYS})
    for k in PROFILE_KEYS:
        o[k] = fs2u(c['profile'][k])
    o['in_cruise'] = [bool(b) for b in c['profile']['in_cruise']]
    return o


def op_for(c: dict, asis: bool = False) -> dict:
    s = c['stream']
    if s == 'engine':
        return {'op': 'c19.engine', 'engine': c['engine'] if isinstance(c['engine'], str) else '<none>'}
    if s == 'points':
        o = op_common(c)
        o.update(op='c19.points', mass=fs2u(c['mass']))
        return o
    if s == 'update':
        n = len(c['sgr'])
        return {'op': 'c19.update', 'kind': c['kind'] + ('_asis' if asis else ''), 'sgr': fs2u(c['sgr']),
                'dx': fs2u(dx_list(c['dx'], n)), 'anchor': f2u(c['anchor'])}
    o = op_common(c)
    n = len(c['profile']['altitude'])
    o.update(op='c19.iterate', kind=c['kind'] + ('_asis' if asis else ''), dx=fs2u(dx_list(c['dx'], n)),
             n_iter=int(c['n_iter']), mass=f2u(c['mass']))
    if c['kind'].startswith('fd_'):
        for k in ('mtow', 'oew', 'mpl', 'load_factor', 'reserve'):
            o[k] = f2u(c[k])
    return o


# ----------------------------------------------------------------------------- the property's clauses (on impl output)
def vec_close(a, b, rtol=1e-9, atol=0.0):
    return len(a) == len(b) and all(close(x, y, rtol, atol) for x, y in zip(a, b))


def first_bad(a, b, rtol=1e-9, atol=0.0):
    if len(a) != len(b):
        return f'lengths {len(a)} vs {len(b)}'
    for i, (x, y) in enumerate(zip(a, b)):
        if not close(x, y, rtol, atol):
            return f'index {i}: {x!r} vs {y!r}'
    return ''


def burn_per_metre(s: float) -> float:
    return 0.0 if s < 1 else 1.0 / s


def trapezoid_steps(b, dxl):
    return [dxl[i] * (b[i] + b[i + 1]) / 2.0 for i in range(len(b) - 1)]


def spec_point(engine, P, m, T, h, v, rocd, acc, cr, p):
    """BADA-3 user manual rev 3.x, eqs 3.6 (total energy), 3.7-1..4/8..9 (thrust), SI units; written from the manual,
    not from the code.  `p` is the ISA pressure (AEIC.utils.standard_atmosphere, outside C19)."""
    from AEIC.constants import R_air, g0
    from AEIC.units import METERS_TO_FEET, MPS_TO_KNOTS

    rho = p / (R_air * T)
    q_s = 0.5 * rho * v * v * P['S_ref']
    cl = m * g0 / q_s
    drag = q_s * (P['c_d0cr'] + P['c_d2cr'] * cl * cl)
    te = drag + m * g0 * rocd / v + m * acc
    hft = h * METERS_TO_FEET
    vk = v * MPS_TO_KNOTS
    if engine == 'Jet':
        isa = P['c_tc1'] * (1 - hft / P['c_tc2'] + P['c_tc3'] * hft * hft)
    elif engine == 'Turboprop':
        isa = P['c_tc1'] / vk * (1 - hft / P['c_tc2']) + P['c_tc3']
    else:
        isa = P['c_tc1'] * (1 - hft / P['c_tc2']) + P['c_tc3'] / vk
    dteff = T - isa_T(h) - P['c_tc4']
    corr = min(max(dteff * max(P['c_tc5'], 0.0), 0.0), 0.4)
    mc = isa * (1 - corr)
    mx = mc * P['c_tcr'] if cr else mc
    ds = (P['c_tdes_high'] if hft > P['h_p_des'] else P['c_tdes_low']) * mc
    lim = min(te, mx)
    thr = ds if lim < 0 else lim
    return {'te': te, 'drag': drag, 'max_climb': mc, 'max': mx, 'descent': ds, 'lim': lim, 'thrust': thr}


def spec_fuel_flow(engine, P, thr, v, cr):
    """BADA-3 eqs 3.9-1..3.9-7: eta [kg/(min kN)] * Thr [kN] (jet, turboprop), C_f1 [kg/min] (piston); kg/s out;
    cruise correction C_fcr in cruise only."""
    from AEIC.units import MPS_TO_KNOTS

    vk = v * MPS_TO_KNOTS
    if engine == 'Jet':
        per_min = P['c_f1'] * (1 + vk / P['c_f2']) * (thr / 1000.0)
    elif engine == 'Turboprop':
        per_min = P['c_f1'] * (1 - vk / P['c_f2']) * (vk / 1000.0) * (thr / 1000.0)
    else:
        per_min = P['c_f1']
    f = per_min / 60.0
    return f * P['c_fcr'] if cr else f


class Eval:
    """Collects what one case produced; flushed into ctx by `report`."""

    def __init__(self, case):
        self.case = case
        self.fails = []  # (clause, detail)
        self.divs = []  # (what, detail)
        self.branches = set()
        self.ties = 0

    def fail(self, clause, detail=''):
        self.fails.append((clause, detail))

    def div(self, what, detail=''):
        self.divs.append((what, detail))


def clauses_points(ev: Eval, c: dict, im: dict):
    from AEIC.units import METERS_TO_FEET  # the library's own factor (the clause is about BADA-3, not about the unit table)
    P, eng = c['params'], c['engine']
    prof = c['profile']
    for i in range(len(c['mass'])):
        T, h, v = prof['temperature'][i], prof['altitude'][i], prof['v_tas'][i]
        cr = prof['in_cruise'][i]
        sp = spec_point(eng, P, c['mass'][i], T, h, v, prof['rocd'][i], prof['acceleration'][i], cr, im['pressure'][i])
        scale = max(1.0, abs(sp['drag']), abs(c['mass'][i]) * 9.81)
        at = 1e-9 * scale
        thr = im['thrust'][i]
        mx_i = im['max_cruise'][i] if cr else im['max_climb'][i]
        # branch bookkeeping
        ev.branches.add('cruise' if cr else 'non-cruise')
        ev.branches.add('above-tropopause' if h > 11000.0 else 'troposphere')
        if sp['te'] > sp['max']:
            ev.branches.add('thrust-limited')
        if sp['lim'] < 0:
            ev.branches.add('descent-substituted')
        if h * METERS_TO_FEET > P['h_p_des']:
            ev.branches.add('descent-high')
        if not close(im['max_climb'][i], sp['max_climb'], 1e-9, at):
            ev.fail('max_climb_thrust_eq_bada3', f'point {i}: impl {im["max_climb"][i]!r} vs BADA-3 {sp["max_climb"]!r}')
        if not close(im['max_cruise'][i], sp['max_climb'] * P['c_tcr'], 1e-9, at):
            ev.fail('max_cruise_thrust_eq_bada3', f'point {i}: impl {im["max_cruise"][i]!r} vs {sp["max_climb"] * P["c_tcr"]!r}')
        if abs(sp['lim']) <= 1e-7 * scale:
            ev.ties += 1  # on the discontinuity of the negative-thrust substitution: rounding decides the branch
        else:
            if not close(thr, sp['thrust'], 1e-9, at):
                ev.fail('thrust_eq_bada3',
                        f'point {i}: impl thrust {thr!r} vs BADA-3 {sp["thrust"]!r} (te {sp["te"]!r}, max {sp["max"]!r}, '
                        f'descent {sp["descent"]!r}, cruise {cr})')
            if sp['lim'] >= 0 and thr > mx_i + at:
                ev.fail('thrust_le_max', f'point {i}: thrust {thr!r} > maximum thrust {mx_i!r} (cruise {cr})')
            if sp['lim'] < 0:
                ds_i = im['descent_high'][i] if h * METERS_TO_FEET > P['h_p_des'] else im['descent_low'][i]
                if not close(thr, ds_i, 1e-9, at):
                    ev.fail('negative_thrust_replaced', f'point {i}: limited thrust {sp["lim"]!r} < 0 but thrust {thr!r} '
                                                        f'is not the descent thrust {ds_i!r}')
        # fuel flow: BADA-3 equation evaluated at the implementation's own thrust
        ff_sel = im['ff_cruise'][i] if cr else im['ff_nominal'][i]
        ff_spec = spec_fuel_flow(eng, P, thr, v, cr)
        fat = 1e-12
        if not close(im['ff_nominal'][i], spec_fuel_flow(eng, P, thr, v, False), 1e-9, fat):
            ev.fail('fuel_flow_eq_bada3', f'point {i} ({eng}): nominal fuel flow {im["ff_nominal"][i]!r} kg/s vs BADA-3 '
                                          f'{spec_fuel_flow(eng, P, thr, v, False)!r} kg/s')
        if not close(im['ff_cruise'][i], im['ff_nominal'][i] * P['c_fcr'], 1e-9, fat):
            ev.fail('cruise_factor', f'point {i}: cruise fuel flow {im["ff_cruise"][i]!r} != nominal*c_fcr')
        # specific ground range uses the cruise-corrected flow only in cruise, zero-flow guard
        s = im['sgr'][i]
        gs = prof['groundspeed'][i]
        want = gs / ff_spec if ff_spec != 0 else 0.0
        if ff_spec == 0:
            ev.branches.add('zero-fuel-flow')
        if close(ff_sel, ff_spec, 1e-9, fat) and not close(s, want, 1e-9, 1e-12):
            ev.fail('cruise_factor_only_in_cruise',
                    f'point {i}: specific ground range {s!r} vs groundspeed/fuel-flow {want!r} (cruise {cr})')


def clauses_update(ev: Eval, c: dict, res: list[float]):
    n = len(c['sgr'])
    dxl = dx_list(c['dx'], n)
    b = [burn_per_metre(s) for s in c['sgr']]
    if any(s < 1 for s in c['sgr']):
        ev.branches.add('sgr-below-1')
    if any(d == 0 for d in dxl):
        ev.branches.add('zero-length-segment')
    ev.branches.add('dx-scalar' if isinstance(c['dx'], float) else
                    ('dx-uniform' if len(set(dxl)) <= 1 else 'dx-nonuniform'))
    if len(res) != n:
        ev.fail('profile_length', f'{len(res)} masses for {n} points')
        return
    anchor_i = 0 if c['kind'] == 'fwd' else n - 1
    if res[anchor_i] != c['anchor']:
        ev.fail('starts_at_prescribed' if c['kind'] == 'fwd' else 'ends_at_prescribed',
                f'mass[{anchor_i}] = {res[anchor_i]!r}, prescribed {c["anchor"]!r}')
    for i in range(n - 1):
        if res[i + 1] > res[i]:
            ev.fail('mass_nonincreasing', f'mass[{i + 1}] = {res[i + 1]!r} > mass[{i}] = {res[i]!r}')
            break
    steps = trapezoid_steps(b, dxl)
    at = 1e-9 * max(abs(x) for x in res) + 1e-9
    for i in range(n - 1):
        if not close(res[i] - res[i + 1], steps[i], 1e-9, at):
            ev.fail('step_decrease_eq_trapezoid',
                    f'{c["kind"]} step {i}: mass decreases by {res[i] - res[i + 1]!r}, trapezoid of fuel-per-metre x '
                    f'segment length gives {steps[i]!r}')
            break


def clauses_driver(ev: Eval, c: dict, im: dict):
    from AEIC.utils.standard_atmosphere import pressure_at_altitude_isa_bada4

    res = im['mass']
    calls = im['calls']
    prof = c['profile']
    n = len(prof['altitude'])
    dxl = dx_list(c['dx'], n)
    k = c['kind']
    ev.branches.add(k)
    ev.branches.add(f'n_iter={c["n_iter"]}')
    ev.branches.add(f'sgr-evaluations={len(calls)}')
    if len(res) != n:
        ev.fail('profile_length', f'{len(res)} masses for {n} points')
        return
    at = 1e-9 * max(abs(x) for x in res) + 1e-9
    if k == 'const_initial' and res[0] != c['mass']:
        ev.fail('starts_at_prescribed', f'mass[0] = {res[0]!r}, prescribed initial mass {c["mass"]!r}')
    if k == 'const_final' and res[-1] != c['mass']:
        ev.fail('ends_at_prescribed', f'mass[-1] = {res[-1]!r}, prescribed final mass {c["mass"]!r}')
    for i in range(n - 1):
        if res[i + 1] > res[i]:
            ev.fail('mass_nonincreasing', f'{k}: mass[{i + 1}] = {res[i + 1]!r} > mass[{i}] = {res[i]!r}')
            break
    # trapezoid of (fuel flow / ground speed) at the last iterate the code evaluated
    m_in, s_last = calls[-1]
    b = [burn_per_metre(s) for s in s_last]
    steps = trapezoid_steps(b, dxl)
    for i in range(n - 1):
        if not close(res[i] - res[i + 1], steps[i], 1e-9, at):
            ev.fail('step_decrease_eq_trapezoid',
                    f'{k} n_iter={c["n_iter"]} step {i}: mass decreases by {res[i] - res[i + 1]!r}, trapezoid integral of '
                    f'fuel flow / ground speed gives {steps[i]!r}')
            break
    # the recorded specific ground range is ground speed / BADA-3 fuel flow at BADA-3 thrust (last evaluation)
    p = pressure_at_altitude_isa_bada4(np.array(prof['altitude'], dtype=float)).tolist()
    for i in range(n):
        cr = prof['in_cruise'][i]
        sp = spec_point(c['engine'], c['params'], m_in[i], prof['temperature'][i], prof['altitude'][i], prof['v_tas'][i],
                        prof['rocd'][i], prof['acceleration'][i], cr, p[i])
        scale = max(1.0, abs(sp['drag']), abs(m_in[i]) * 9.81)
        if abs(sp['lim']) <= 1e-7 * scale:
            ev.ties += 1
            continue
        ff = spec_fuel_flow(c['engine'], c['params'], sp['thrust'], prof['v_tas'][i], cr)
        want = prof['groundspeed'][i] / ff if ff != 0 else 0.0
        if abs(ff) < 1e-9 * scale * 1e-5:
            continue
        if not close(s_last[i], want, 1e-8, 1e-9):
            ev.fail('sgr_eq_groundspeed_over_bada3_fuel_flow',
                    f'{k} point {i}: specific ground range {s_last[i]!r} vs {want!r}')
            break
        if sp['lim'] < 0:
            ev.branches.add('descent-substituted')
        if sp['te'] > sp['max']:
            ev.branches.add('thrust-limited')
    if k.startswith('fd_'):
        mtow = c['mtow']
        heads = [a[0] for a, _ in calls] + [res[0]]
        if c['mass'] <= mtow:
            for j, hd in enumerate(heads):
                if hd > mtow:
                    ev.fail('initial_mass_le_mtow', f'{k}: iterate {j} has initial mass {hd!r} > MTOW {mtow!r}')
                    break
        if res[0] == mtow:
            ev.branches.add('clipped-at-mtow')
        if c['n_iter'] >= 1:
            fb = res[0] - res[-1]
            want = c['oew'] + c['mpl'] * c['load_factor'] + (fb * (1 + c['reserve']) if k == 'fd_fraction' else fb + c['reserve'])
            want = min(want, mtow)
            if not close(res[0], want, 1e-9, at * 10):
                ev.fail('starts_at_prescribed',
                        f'{k} n_iter={c["n_iter"]}: initial mass {res[0]!r} but OEW + payload + fuel burnt (+reserve) of the '
                        f'returned profile, limited by MTOW, is {want!r}')


# ----------------------------------------------------------------------------- evaluation of a batch of cases
POINT_COLS = ['te', 'max_climb', 'max_cruise', 'descent_high', 'descent_low', 'thrust', 'ff_nominal', 'ff_cruise', 'sgr']


def valid_case(c: dict) -> bool:
    """Inputs on which the implementation must produce a result (everything our generators emit except `engine`)."""
    return c['stream'] != 'engine'


def evaluate(ctx, cases: list[dict]) -> list[Eval]:
    evs = [Eval(c) for c in cases]
    impl = []
    for c in cases:
        try:
            s = c['stream']
            if s == 'engine':
                impl.append(('ok', impl_engine(c)))
            elif s == 'points':
                impl.append(('ok', impl_points(c)))
            elif s == 'update':
                impl.append(('ok', impl_update(c)))
            else:
                impl.append(('ok', impl_driver(c)))
        except Exception as e:  # noqa: BLE001
            impl.append(('exc', e))
    try:
        outs = ctx.driver.run([op_for(c) for c in cases])
    except LeanError as e:
        for ev in evs:
            ev.div('driver', str(e))
        outs = [{'err': 'driver unavailable'}] * len(cases)
    asis_ops = []
    for ev, c, (st, im), mo in zip(evs, cases, impl, outs):
        s = c['stream']
        if st == 'exc':
            kind = exc_kind(im)
            if valid_case(c):
                ev.fail('accepts_own_parameter_object',
                        f'{s} {c.get("kind", "")} {c.get("engine", "")}: valid input raised {type(im).__name__}: {im}')
                if 'err' in mo:
                    pass
                else:
                    ev.div(f'{s}: model total, implementation raised', kind)
            continue
        if 'err' in mo:
            ev.div(f'{s}: model refused', mo['err'])
            mo = None
        else:
            mo = mo['out']
        if s == 'engine':
            if mo is not None and mo != im:
                ev.div('engine dispatch', f'impl {im} vs model {mo}')
            if isinstance(c['engine'], str) and c['engine'] in ENGINES and im != 'ok':
                ev.fail('accepts_own_parameter_object', f'engine type {c["engine"]} refused: {im}')
            ev.branches.add(im)
        elif s == 'points':
            clauses_points(ev, c, im)
            if mo is not None:
                for col in POINT_COLS:
                    got = u2fs(mo[col])
                    for i, (x, y) in enumerate(zip(im[col], got)):
                        scale = max(1.0, abs(im['drag'][i]), abs(c['mass'][i]) * 9.81)
                        at = 1e-9 * scale if col not in ('ff_nominal', 'ff_cruise', 'sgr') else 1e-12
                        if close(x, y, 1e-9, at):
                            continue
                        # discontinuity of the substitution: both sides may legitimately pick different branches
                        lim = min(im['te'][i], im['max_cruise'][i] if c['profile']['in_cruise'][i] else im['max_climb'][i])
                        if col in ('thrust', 'ff_nominal', 'ff_cruise', 'sgr') and abs(lim) <= 1e-7 * scale:
                            ev.ties += 1
                            continue
                        ev.div(f'points.{col}', f'point {i}: impl {x!r} vs model {y!r}')
                        break
                # spec definitions of the Lean library == spec used for the clauses here
                ts = u2fs(mo['thrust_spec'])
                mt = u2fs(mo['thrust'])
                fs_ = u2fs(mo['ff_spec'])
                for i in range(len(ts)):
                    if ts[i] != mt[i]:
                        ev.div('lean thrustSpec vs thrust', f'point {i}: {ts[i]!r} vs {mt[i]!r}')
                        break
                    want = spec_fuel_flow(c['engine'], c['params'], mt[i], c['profile']['v_tas'][i], c['profile']['in_cruise'][i])
                    if not close(fs_[i], want, 1e-12, 1e-300):
                        ev.div('lean fuelFlowSpec vs harness spec', f'point {i}: {fs_[i]!r} vs {want!r}')
                        break
        elif s == 'update':
            clauses_update(ev, c, im)
            if mo is not None:
                got = u2fs(mo)
                if im == got:
                    ev.branches.add('update-bit-identical')
                elif not vec_close(im, got, 1e-12, 1e-12 * abs(c['anchor'])):
                    ev.div(f'update.{c["kind"]}', first_bad(im, got, 1e-12, 1e-12 * abs(c['anchor'])))
                    if c['kind'] == 'bwd':
                        asis_ops.append((ev, c, im))
        else:
            clauses_driver(ev, c, im)
            if mo is not None:
                got = u2fs(mo['mass'])
                at = 1e-9 * max(abs(x) for x in im['mass']) + 1e-9
                if not vec_close(im['mass'], got, 1e-9, at):
                    if convergence_tie(c, im):
                        ev.ties += 1
                    else:
                        ev.div(f'driver.{c["kind"]}', f'n_iter={c["n_iter"]}: ' + first_bad(im['mass'], got, 1e-9, at))
                        if c['kind'].startswith('fd_'):
                            asis_ops.append((ev, c, im))
    # does a diverging implementation still behave like the recorded unrepaired variant?  (diagnostic only)
    if asis_ops:
        try:
            res = ctx.driver.run([op_for(c, asis=True) for _, c, _ in asis_ops])
            for (ev, c, im), r in zip(asis_ops, res):
                if 'out' not in r:
                    continue
                got = u2fs(r['out'] if c['stream'] == 'update' else r['out']['mass'])
                ref = im if c['stream'] == 'update' else im['mass']
                if vec_close(ref, got, 1e-9, 1e-9 * max(abs(x) for x in ref) + 1e-9):
                    ev.divs[-1] = (ev.divs[-1][0], ev.divs[-1][1] + ' [implementation agrees with the unrepaired …AsIs model]')
        except LeanError:
            pass
    return evs


def convergence_tie(c: dict, im: dict) -> bool:
    """True when some convergence test `pct < 0.01` of the run sat within rounding of its threshold."""
    calls = im['calls']
    idx = 0 if c['kind'] == 'const_final' else -1
    ends = [a[idx] for a, _ in calls] + [im['mass'][idx]]
    for a, b in zip(ends[1:], ends[2:]):
        if a != 0 and abs(abs(b - a) / a * 100 - 0.01) < 1e-9:
            return True
    return False


def case_key(c: dict) -> str:
    return json.dumps(c, sort_keys=True, default=str)[:4000]


def report(ctx, evs: list[Eval], count=True):
    for ev in evs:
        c = ev.case
        for clause, detail in ev.fails:
            ctx.clause_fail(clause, c, finding=None, detail=detail)
        for what, detail in ev.divs:
            ctx.diverge(what, c, detail)
        ctx.tie_suspects += ev.ties
        if count:
            for b in ev.branches:
                ctx.count(f'{c["stream"]}:{b}')
            default = {'non-cruise', 'troposphere', 'ok', 'dx-scalar', 'update-bit-identical'}
            sample = None
            if len(ctx.samples) < 6 and c['stream'] in ('driver', 'update') and ctx.evaluations % 97 == 0:
                sample = {k: (v if not isinstance(v, (list, dict)) else '…') for k, v in c.items()}
            ctx.case(case_key(c), nontrivial=bool(ev.branches - default), sample=sample)


# ----------------------------------------------------------------------------- widened search around divergences
def widen(rng, c: dict, k: int) -> list[dict]:
    out = []
    for _ in range(k):
        d = json.loads(json.dumps(c))
        s = d['stream']
        if s == 'points':
            d['mass'] = [float(m * rng.uniform(0.5, 1.6)) for m in d['mass']]
            d['profile']['rocd'] = [float(r + rng.uniform(-10, 10)) for r in d['profile']['rocd']]
            d['profile']['in_cruise'] = [bool(rng.random() < 0.5) for _ in d['profile']['in_cruise']]
        elif s == 'update':
            d['sgr'] = [float(x * rng.uniform(0.2, 3.0)) for x in d['sgr']]
            d['kind'] = ['fwd', 'bwd'][int(rng.integers(0, 2))]
            if not isinstance(d['dx'], float):
                d['dx'] = [float(x * rng.uniform(0.1, 3.0)) for x in d['dx']]
        elif s == 'driver':
            d['n_iter'] = int(rng.integers(0, 13))
            d['mass'] = float(d['mass'] * rng.uniform(0.7, 1.2))
            if d['kind'].startswith('fd_'):
                d['mass'] = min(d['mass'], d['mtow'])
                d['load_factor'] = float(rng.uniform(0.1, 1.0))
            if not isinstance(d['dx'], float):
                d['dx'] = [float(x * rng.uniform(0.1, 3.0)) for x in d['dx']]
        else:
            continue
        out.append(d)
    return out


# ----------------------------------------------------------------------------- entry points
def corpus_cases() -> list[tuple[str, dict]]:
    out = []
    d = CORPUS_DIR / PID
    if d.is_dir():
        for p in sorted(d.glob('*.json')):
            j = json.loads(p.read_text())
            out.append((p.name, j.get('case', j)))
    return out


def main(ctx) -> int:
    ctx.proofs()
    aeic_setup()
    from AEIC.config import Config

    try:
        # 1. corpus first
        cc = corpus_cases()
        if cc:
            evs = evaluate(ctx, [c for _, c in cc])
            report(ctx, evs)
            ctx.extra['corpus_replayed'] = [n for n, _ in cc]
        # 2. generated streams
        rng = ctx.rng
        n_pts = ctx.scale(quick=900, thorough=100000)
        n_upd = ctx.scale(quick=1200, thorough=120000)
        n_drv = ctx.scale(quick=480, thorough=50000)
        cases = [gen_case_engine(rng, i) for i in range(9)]
        cases += [gen_case_points(rng, i) for i in range(n_pts)]
        cases += [gen_case_update(rng, i) for i in range(n_upd)]
        cases += [gen_case_driver(rng, i) for i in range(n_drv)]
        chunk = 2000
        diverging = []
        for a in range(0, len(cases), chunk):
            evs = evaluate(ctx, cases[a:a + chunk])
            report(ctx, evs)
            diverging += [ev.case for ev in evs if ev.divs and not ev.fails]
        # 2b. kernels regenerated from BADA/model.py (translator validation; the bridge to the model is proved in Lean)
        from . import kernels

        kernels.check(ctx, files={'BADA/model.py'})
        kernels.check_vec(ctx, files={'BADA/fuel_burn_base.py'})
        kernels.check_driver_loops(ctx, profiles=6 if ctx.tier == 'quick' else 60)
        # 3. divergences / broken proofs without a failing clause so far: widened search for a failing input
        if (diverging or ctx.broken) and not ctx.violations:
            srng = make_rng(PID, ctx.seed, 'search')
            seeds = diverging[:12] or cases[9:9 + 12]
            extra = []
            for c in seeds:
                extra += widen(srng, c, 25)
            extra += [gen_case_driver(srng, i) for i in range(200)] + [gen_case_update(srng, i) for i in range(300)]
            evs = evaluate(ctx, extra)
            for ev in evs:  # only failing clauses matter in the search
                for clause, detail in ev.fails:
                    ctx.clause_fail(clause, ev.case, finding=None, detail='[widened search] ' + detail)
            ctx.extra['widened_search_cases'] = len(extra)
    finally:
        Config.reset()
    return ctx.finish(RULE, TRUSTED, ASSUME)


def replay(ctx, path) -> int:
    """Re-run one recorded case (a replay written by ctx.finish, or a corpus file) against the implementation."""
    aeic_setup()
    from AEIC.config import Config

    try:
        j = json.loads(Path(path).read_text())
        if 'first' in j:
            cases = [j['first']['case']] + [o['case'] for o in j.get('others', [])[:3]]
        elif 'divergences' in j:
            cases = [d['case'] for d in j['divergences'][:5]]
            if not cases:
                print(f'[{PID}] replay file names broken obligations only: {j.get("broken_obligations")}')
                return 1
        else:
            cases = [j.get('case', j)]
        evs = evaluate(ctx, cases)
        bad = 0
        for ev in evs:
            c = ev.case
            head = f'{c["stream"]} {c.get("kind", "")} {c.get("engine", "")}'.strip()
            for clause, detail in ev.fails:
                print(f'[{PID}] replay: clause {clause} FAILS on the implementation: {head}: {detail}')
                bad += 1
            for what, detail in ev.divs:
                print(f'[{PID}] replay: implementation differs from the model ({what}): {detail}')
                bad += 1
            if not ev.fails and not ev.divs:
                print(f'[{PID}] replay: {head}: all clauses hold, implementation agrees with the model')
        return 1 if bad else 0
    finally:
        Config.reset()
