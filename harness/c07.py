"""C07 — store indices follow insertion order across sessions and cache evictions."""
from __future__ import annotations

import json

from harness.common import aeic_setup
from harness.store_check import OP_CLASS, check_histories, load_corpus
from harness.store_impl import gen_history, run_impl, short_sequences

RULE = ('ALL sequences of k ops (quick k=4 over 6 ops, thorough k=5 over 6 ops) after create+add+add, plus random op histories over {create(file|memory, cache 1/2/2048 MB), add (40..9400 points; too-large, wrong field set, missing '
        'required value, inconsistent id at a low rate), get i (old and new items, beyond the end), len, iter, sync, '
        'get_flight, close, open_append, open_read, save (in-memory store written to the file)}, and ALL k-sequences with save for in-memory stores, 4..25 ops, generated from VERIF_SEED; each executed on a real '
        'TrajectoryStore in a temp dir and on the Lean model (outputs and cache key sets compared after every op) and '
        'compared with the abstract list specification; non-trivial = the history reopens the file at least once or reads '
        'an item after it was evicted from the cache; distinct = distinct op sequences')
TRUSTED = ['Lean 4.33 kernel', 'axioms: propext, Classical.choice, Quot.sound (audited per theorem each run)',
           'correspondence harness harness/c07.py + harness/store_check.py + harness/store_impl.py',
           'netCDF4/HDF5 abstracted as a list along the trajectory dimension', 'cachetools.LRUCache re-modelled (AeicModel/Store.lean Cache)']
ASSUME = ['payload contents are opaque here (C03 decides what is stored = what is read back)',
          'negative indices are outside the property and are not generated',
          'the store is used from one thread (C20)']


def nontrivial(ops, outs):
    names = [o['op'] for o in ops]
    reopened = any(n in ('open_append', 'open_read') for n in names)
    big_reads = sum(1 for o in ops if o['op'] in ('get', 'iter'))
    heavy = sum(1 for o in ops if o['op'] == 'add' and o['npts'] >= 2600)
    return reopened or (heavy >= 4 and big_reads >= 1)


def main(ctx):
    ctx.proofs()
    aeic_setup()
    n = ctx.scale(quick=150, thorough=3000)
    hs = load_corpus('C07')
    ctx.extra['corpus_cases'] = len(hs)
    hs += [gen_history(ctx.rng, 25) for _ in range(n)]
    # every sequence of k ops over {add, get first, get last, iter, len, sync, reopen-append[, reopen-read]}
    ex = short_sequences('AGHISP', 4, False) if ctx.tier == 'quick' else short_sequences('AGHISP', 5, False)
    # in-memory stores: the same, with `save` (the store becomes file-backed) and reopening of the saved file
    ex += short_sequences('AGHVP', 4, False, mem=True) if ctx.tier == 'quick' else short_sequences('AGHVP', 5, False, mem=True)
    # the same short sequences with trajectories that have no points (falsy objects, empty arrays on disk)
    # overlapping walks over one store object (zip of the store with itself, a walk resumed after another complete walk)
    ex += short_sequences('AZUGP', 3, False) + short_sequences('AZUV', 3, False, mem=True)
    ex += short_sequences('AGHIP', 3, False, npts=0)
    ex += short_sequences('AGHV', 3, False, npts=0, mem=True)
    ctx.extra['exhaustive_short_sequences'] = len(ex)
    hs += ex
    check_histories(ctx, hs, OP_CLASS['C07'], 'store_refines_list', nontrivial)
    # the event program of `add` regenerated from the source (src_add_advances_index_once) vs the lines real calls execute
    from harness.addcheck import check_add_program

    check_add_program(ctx)
    return ctx.finish(RULE, TRUSTED, ASSUME)


def replay(ctx, path):
    aeic_setup()
    j = json.loads(open(path).read())
    case = j.get('first', j).get('case', j)
    ops = case['ops']
    outs, _ = run_impl(ops, with_keys=False)
    for o, r, s in zip(ops, outs, case.get('spec_outs', [''] * len(ops))):
        print(o, '->', r, '' if r == s or not s else f'   <-- specification: {s}')
    return 0
