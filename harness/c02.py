"""C02 — simulated trajectories obey mass, time, distance and route bookkeeping.

Three correspondences against the Lean model (`AeicModel/Container.lean`, `AeicModel/Builder.lean`) and the clauses of
the property evaluated on the implementation's own output:

* container: random append / make_point / read sequences on the real `Container` and `Trajectory` vs `c02.cont_run`
  (exact, bit patterns);
* flight:    real `LegacyBuilder.fly` (weather off) on generated missions, generated performance tables and step sizes
  vs `c02.fly`, whose performance / ground-track oracles are the calls the implementation itself made (so a query the
  code did not make, or made with other bits, is a divergence); every field of every point compared;
* resample:  `Trajectory.interpolate_time` on every returned trajectory vs `c02.interp`.
"""
from __future__ import annotations

import json
import math
from pathlib import Path

import numpy as np

from harness import c0217_lib as L
from harness.common import CORPUS_DIR, aeic_setup, close, make_rng, u2f

PID = 'C02'
RULE = ('container: op sequences (append x N, make_point(idx), field reads) with N drawn around the growth boundaries '
        '{1..3,49,50,51,99,100,101,149..151}; flight: missions over explicit origin/destination positions (ordinary, '
        'antimeridian, polar, near-antipodal, short, special meridional), elevations incl. above cruise level/ceiling, '
        'load factors, the sample B738 table or a generated legacy table (random FL grid, three masses, PTF constraints), '
        'phase sizes n in {2,3,7,33,49,50,51,70,99,100,101,150}, mass iteration on/off; a case is non-trivial when it '
        'returns a trajectory or is refused for a modelled reason; distinct = distinct case dicts')
TRUSTED = ['Lean 4.33 kernel', 'axioms propext/Classical.choice/Quot.sound', 'Mathlib v4.33',
           'correspondence harness harness/c02.py + harness/c0217_lib.py',
           'pyproj geodesics (ground track is a parameter of the model; its law loc(0)=start is checked per mission)',
           'scipy interpn / LegacyPerformanceModel (parameter of the model: recorded per flight, covered by C06)',
           'numpy np.interp binary search (modelled as a scan; equal on non-decreasing time)',
           'libm pow for x**2 (same function on both sides)']
ASSUME = ['IEEE rounding is not modelled: theorems are over R; implementation vs Float model compared with rtol 1e-9 '
          '(bitwise agreement is reported in evidence)',
          'PerfOK (fuel flow >= 0, TAS > 0, ROC > 0 in climb, < 0 in descent) is a hypothesis of the monotonicity '
          'theorems; the harness checks it on every recorded performance answer',
          'weather-on flights are covered by the clauses only']

MASS_RTOL = 1e-9


# --------------------------------------------------------------------------- container
def _container_case(rng) -> dict:
    sizes = [1, 2, 3, 48, 49, 50, 51, 52, 99, 100, 101, 149, 150, 151, 163]
    n = int(rng.choice(sizes)) if rng.random() < 0.8 else int(rng.integers(1, 220))
    return {'kind': 'container', 'ncols': int(rng.choice([1, 2, 5])), 'n': n, 'seed': int(rng.integers(0, 2 ** 31)),
            'traj': bool(rng.random() < 0.4)}


def _container_ops(case: dict):
    """deterministic op list: appends interleaved with make_point / reads; returns (rows, ops)"""
    r = np.random.Generator(np.random.PCG64(case['seed']))
    ncols = 14 if case.get('traj') else case['ncols']
    rows = [[float(x) for x in r.uniform(-1e3, 1e6, size=ncols)] for _ in range(case['n'])]
    ops = []
    for k, row in enumerate(rows):
        ops.append(('a', row))
        size = k + 1
        if size in (1, 2, 3, 49, 50, 51, 99, 100, 101, 149, 150, 151) or r.random() < 0.05 or size == case['n']:
            idxs = {-1, 0, size - 1, -size, size, -size - 1, int(r.integers(-size, size))}
            for i in sorted(idxs):
                ops.append(('mp', i))
            ops.append(('get', None))
    ops.append(('fix', None))
    ops.append(('a', rows[0]))
    ops.append(('mp', -1))
    return ncols, rows, ops


def run_container(case: dict):
    """returns (impl_outputs, model_ops, clause_failures)"""
    from AEIC.storage import Container, FieldMetadata, FieldSet, FlightPhase
    from AEIC.trajectories import Trajectory

    ncols, rows, ops = _container_ops(case)
    if case.get('traj'):
        c = Trajectory()
        c.set_phase(FlightPhase.CLIMB)
        names = L.FIELDS
    else:
        names = [f'f{i}' for i in range(ncols)]
        c = Container(fieldset=FieldSet(None, **{n: FieldMetadata() for n in names}))
    outs, fails, appended = [], [], []
    for kind, arg in ops:
        try:
            if kind == 'a':
                c.append(**dict(zip(names, arg)))
                appended.append(arg)
                outs.append('ok')
            elif kind == 'mp':
                pt = c.make_point(arg)
                vals = [float(pt._data[n]) for n in names]
                outs.append(vals)
                if -len(appended) <= arg < len(appended):
                    want = appended[arg]
                    if vals != want:
                        fails.append(('make_point returns the requested point',
                                      f'make_point({arg}) on {len(appended)} points gave {vals[:3]}.. expected {want[:3]}..'))
                else:
                    fails.append(('make_point refuses an index outside the trajectory',
                                  f'make_point({arg}) on {len(appended)} points returned {vals[:3]}..'))
            elif kind == 'get':
                cols = [[float(x) for x in getattr(c, n)] for n in names]
                outs.append(cols)
                want = [[row[j] for row in appended] for j in range(len(names))]
                if cols != want or len(c) != len(appended):
                    fails.append(('fields read back are the appended points', f'after {len(appended)} appends'))
            elif kind == 'fix':
                c.fix()
                outs.append('ok')
        except (IndexError, ValueError) as e:
            outs.append({'err': type(e).__name__})
            if kind == 'mp' and -len(appended) <= arg < len(appended):
                fails.append(('make_point returns the requested point', f'make_point({arg}) raised {type(e).__name__}'))
    mops = []
    for kind, arg in ops:
        if kind == 'a':
            mops.append({'a': [L.f2u(x) for x in arg]})
        elif kind == 'mp':
            mops.append({'mp': int(arg)})
        else:
            mops.append({kind: 1})
    return outs, {'op': 'c02.cont_run', 'ncols': len(names), 'ops': mops}, fails


def compare_container(outs, mouts) -> str | None:
    if len(outs) != len(mouts):
        return 'different number of results'
    for k, (a, b) in enumerate(zip(outs, mouts)):
        if isinstance(a, str) or isinstance(a, dict):
            if a != b:
                return f'op {k}: impl {a} model {b}'
        elif a and isinstance(a[0], list):
            if [[L.f2u(x) for x in col] for col in a] != b:
                return f'op {k}: columns differ'
        else:
            if isinstance(b, dict) or [L.f2u(x) for x in a] != b:
                return f'op {k}: make_point impl {a[:3]} model {b if isinstance(b, dict) else [u2f(x) for x in b[:3]]}'
    return None


# --------------------------------------------------------------------------- flight clauses
def flight_clauses(case: dict, res: dict) -> list[tuple[str, str]]:
    """the clauses of C02 on a returned trajectory (implementation output only)"""
    from AEIC.utils import GEOD

    fails: list[tuple[str, str]] = []
    cols = {n: np.array(c) for n, c in zip(L.FIELDS, res['cols'])}
    n = len(cols['aircraft_mass'])
    pm = res['pm']
    mass, fuel, t, gd, alt = (cols[k] for k in ('aircraft_mass', 'fuel_mass', 'flight_time', 'ground_distance', 'altitude'))
    if n == 0:
        return [('trajectory is not empty', 'no points')]
    bad = [k for k, c in cols.items() if not np.all(np.isfinite(c))]
    if bad:
        fails.append(('all values are finite', f'non-finite values in {bad}'))
        return fails
    scale = max(abs(mass[0]), 1.0)
    if np.ptp(mass - fuel) > MASS_RTOL * scale:
        fails.append(('mass minus fuel is constant', f'ptp={np.ptp(mass - fuel):.3e}'))
    for nm, arr, sgn in (('aircraft mass never increases', mass, -1), ('fuel mass never increases', fuel, -1),
                         ('elapsed time never decreases', t, 1), ('ground distance never decreases', gd, 1)):
        d = np.diff(arr) * sgn
        if d.size and d.min() < -1e-9 * max(abs(arr).max(), 1.0):
            k = int(np.argmin(d))
            fails.append((nm, f'between points {k} and {k + 1}: {arr[k]!r} -> {arr[k + 1]!r}'))
    if mass[0] != res['sm'] or fuel[0] != res['tfm']:
        fails.append(('first point carries the reported starting mass and fuel load',
                      f'mass[0]={mass[0]!r} reported {res["sm"]!r}; fuel[0]={fuel[0]!r} reported {res["tfm"]!r}'))
    if t[0] != 0.0 or gd[0] != 0.0:
        fails.append(('first point is at time 0 and distance 0', f't0={t[0]} gd0={gd[0]}'))
    # positions: on the origin-destination geodesic at the recorded distance (independent pyproj call)
    o, dd = case['orig'], case['dest']
    az0 = GEOD.inv(o[0], o[1], dd[0], dd[1])[0]
    elon, elat, _ = GEOD.fwd(np.full(n, o[0]), np.full(n, o[1]), np.full(n, az0), gd)
    _, _, off = GEOD.inv(elon, elat, cols['longitude'], cols['latitude'])
    off = np.abs(np.asarray(off))
    if off.max() > 1e-2:  # 1 cm
        k = int(np.argmax(off))
        fails.append(('every position lies on the great circle at the recorded ground distance',
                      f'point {k}: {off[k]:.3f} m away from track.location({gd[k]!r})'))
    # altitude schedule
    ft = L.FT
    ceil_ = pm.maximum_altitude
    start = o[2] + 3000.0 * ft
    if start >= ceil_:
        start = o[2]
    n1, n2 = res['n'][0], res['n'][1]
    tol = 1e-9 * max(abs(ceil_), 1.0)
    if alt[0] != start:
        fails.append(('altitude starts 3000 ft above the origin (origin elevation at the ceiling)', f'{alt[0]!r} vs {start!r}'))
    if n1 + n2 > n or n1 < 1 or n2 < 1:
        fails.append(('phase counts are consistent with the number of points', f'n={n} counts={res["n"]}'))
    else:
        clm, crz, des = alt[:n1], alt[n1:n1 + n2], alt[n1 + n2:]
        if clm.size > 1 and np.diff(clm).min() < -tol:
            fails.append(('altitude never decreases during climb', f'min step {np.diff(clm).min():.3e}'))
        if np.ptp(crz) != 0.0:
            fails.append(('altitude is constant in cruise', f'ptp {np.ptp(crz):.3e}'))
        if des.size > 1 and np.diff(des).max() > tol:
            fails.append(('altitude never increases during descent', f'max step {np.diff(des).max():.3e}'))
        end = dd[2] + 3000.0 * ft
        if end >= ceil_:
            end = ceil_
        if des.size and not close(des[-1], end, rtol=1e-9, atol=1e-6):
            fails.append(('descent ends 3000 ft above the destination', f'{des[-1]!r} vs {end!r}'))
        if alt.max() > crz[0] + tol or crz[0] > ceil_ + tol:
            fails.append(('altitude never exceeds the cruise level or the ceiling',
                          f'max {alt.max()!r} cruise {crz[0]!r} ceiling {ceil_!r}'))
    # envelope: every returned point lies inside the part of the table its phase interpolates in
    df = pm.performance_table.df
    tolr = pm.performance_table.ZERO_ROCD_TOL
    subs = [df[df.rocd > tolr], df[(df.rocd >= -tolr) & (df.rocd <= tolr)], df[df.rocd < -tolr]]
    fl = cols['flight_level']
    if n1 + n2 <= n and n1 >= 1 and n2 >= 1:
        for (a, b), sub, nm in (((0, n1), subs[0], 'climb'), ((n1, n1 + n2), subs[1], 'cruise'), ((n1 + n2, n), subs[2], 'descent')):
            if len(sub) == 0 or b <= a:
                continue
            eps = 1e-9
            okfl = (fl[a:b] >= sub.fl.min() - eps) & (fl[a:b] <= sub.fl.max() + eps)
            okm = (mass[a:b] >= sub.mass.min() - eps) & (mass[a:b] <= sub.mass.max() + eps) if sub.mass.nunique() > 1 else np.ones(b - a, bool)
            if not (okfl & okm).all():
                k = a + int(np.argmin(okfl & okm))
                fails.append(('no point of a returned trajectory is outside the performance envelope',
                              f'{nm} point {k}: FL {fl[k]!r} mass {mass[k]!r} table FL [{sub.fl.min()}, {sub.fl.max()}] mass [{sub.mass.min()}, {sub.mass.max()}]'))
    return fails


def resample_clauses(res: dict) -> tuple[list[tuple[str, str]], dict | None]:
    """interpolate_time at the own time points and at mid-points; returns (failures, driver op)"""
    traj = res['traj']
    cols = res['cols']
    t = np.array(cols[L.IX['flight_time']])
    fails = []
    try:
        own = traj.interpolate_time(t)
    except Exception as e:  # noqa: BLE001
        return [('resampling at the own time points works', f'{type(e).__name__}: {e}')], None
    n = len(t)
    mids = [(t[i] + t[i + 1]) / 2 for i in range(n - 1) if t[i] < t[i + 1] and t[i] < (t[i] + t[i + 1]) / 2 < t[i + 1]]
    mid = traj.interpolate_time(np.array(mids)) if mids else None
    # last index sharing each time value (np.interp on non-decreasing abscissae answers with that one)
    for name, f in zip(L.FIELDS, cols):
        f = np.array(f)
        got = np.array(getattr(own, name), dtype=float)
        if len(got) != n:
            fails.append(('resampling keeps the number of points', f'{name}: {len(got)} vs {n}'))
            continue
        for i in range(n):
            same = [j for j in (i - 1, i + 1) if 0 <= j < n and t[j] == t[i]]
            j0 = i
            while j0 > 0 and t[j0 - 1] == t[i]:
                j0 -= 1
            j1 = i
            while j1 + 1 < n and t[j1 + 1] == t[i]:
                j1 += 1
            if all(f[j] == f[i] for j in range(j0, j1 + 1)) and not (got[i] == f[i]):
                fails.append(('resampling at the own time points gives back the same values',
                              f'{name}[{i}]: {got[i]!r} vs {f[i]!r} (n={n}, dup={bool(same)})'))
                break
    if mid is not None:
        k = 0
        for name, f in zip(L.FIELDS, cols):
            got = np.array(getattr(mid, name), dtype=float)
            k = 0
            for i in range(n - 1):
                if not (t[i] < t[i + 1] and t[i] < (t[i] + t[i + 1]) / 2 < t[i + 1]):
                    continue
                x = mids[k]
                want = f[i] + (f[i + 1] - f[i]) / (t[i + 1] - t[i]) * (x - t[i])
                sc = max(abs(f[i]), abs(f[i + 1]), 1e-300)
                if not close(got[k], want, rtol=1e-9, atol=1e-9 * sc):
                    fails.append(('resampling between two points is the linear interpolation',
                                  f'{name} between {i} and {i + 1}: {got[k]!r} vs {want!r}'))
                    break
                k += 1
    op = {'op': 'c02.interp', 't': [L.f2u(x) for x in t], 'cols': [[L.f2u(x) for x in c] for c in cols],
          'new': [L.f2u(x) for x in list(t) + mids]}
    impl = [[float(x) for x in getattr(own, nme)] + ([float(x) for x in getattr(mid, nme)] if mid is not None else [])
            for nme in L.FIELDS]
    return fails, {'op': op, 'impl': impl}


def perf_ok_check(res: dict) -> str | None:
    """the hypotheses PerfOK of the monotonicity theorems, on every answer the performance model gave"""
    for c in res['perf_calls']:
        if len(c) == 4:
            continue
        rule, tas, roc, ff = c[0], u2f(c[3]), u2f(c[4]), u2f(c[5])
        if ff < 0 or tas <= 0 or (rule == 0 and roc <= 0) or (rule == 2 and roc >= 0):
            return f'rule {rule}: tas={tas} roc={roc} ff={ff}'
    return None


def compare_flight(case, res, out) -> str | None:
    if res['ok']:
        if 'err' in out:
            why = ' (the model asked the recorded performance/track oracle for a state the implementation never evaluated: the computations differ upstream)' if out['err'] == 'oracleMiss' else ''
            return f"implementation returned a trajectory, model refuses with {out['err']}{why}"
        mc = L.model_cols(out)
        if len(mc[0]) != len(res['cols'][0]):
            return f'point count impl {len(res["cols"][0])} model {len(mc[0])}'
        for name, a, b in zip(L.FIELDS, res['cols'], mc):
            for i, (x, y) in enumerate(zip(a, b)):
                if not close(x, y, rtol=1e-9, atol=1e-9):
                    return f'{name}[{i}] impl {x!r} model {y!r}'
        if not close(res['sm'], u2f(out['sm'])) or not close(res['tfm'], u2f(out['tfm'])):
            return f'starting mass / fuel impl {res["sm"]!r},{res["tfm"]!r} model {u2f(out["sm"])!r},{u2f(out["tfm"])!r}'
        if res['n'] != out['n']:
            return f'phase counts impl {res["n"]} model {out["n"]}'
        return None
    if 'err' not in out:
        return f"implementation refuses ({res['kind']}: {res['exc']!r}), model returns a trajectory"
    want = L.MODEL_KIND.get(out['err'], out['err'])
    kind = res['kind']
    if kind == 'internal:AttributeError' and want == 'ctor':
        return None  # masking of constructor refusals is C17's business (the flight is refused either way)
    if kind != want:
        return f"refusal kind impl {kind} ({res['exc']!r}) model {out['err']}"
    return None


def exact_fraction(res, out) -> float:
    mc = L.model_cols(out)
    tot = sum(len(c) for c in mc)
    ex = sum(1 for a, b in zip(res['cols'], mc) for x, y in zip(a, b) if x == y or (math.isnan(x) and math.isnan(y)))
    return ex / max(tot, 1)


# --------------------------------------------------------------------------- one flight, all parts
def eval_flight(ctx, case: dict, pending: list, do_resample=True):
    res = L.run_flight(case)
    ctx.count('impl:' + ('ok' if res['ok'] else res['kind']))
    ctx.count('route:' + case.get('tag', '?'))
    fails = []
    if res['ok']:
        fails += flight_clauses(case, res)
        if res['track'] is not None:
            p0, l0 = res['track'][0], res['track'].location(0.0)
            if (p0.location.longitude, p0.location.latitude, p0.azimuth) != (l0.location.longitude, l0.location.latitude, l0.azimuth):
                ctx.notes.append('track law loc(0)=start does not hold for ' + json.dumps(case['orig']))
        bad = perf_ok_check(res)
        if bad:
            ctx.count('perfok-violated')
        rs = None
        if do_resample:
            rf, rs = resample_clauses(res)
            fails += rf
    else:
        rs = None
    for clause, detail in fails:
        ctx.clause_fail(clause, case, finding=None, detail=detail)
    pending.append((case, res, L.model_op(case, res), rs))
    nontrivial = res['ok'] or res['kind'] in ('envelope', 'track', 'ctor', 'nonConvergence')
    ctx.case(json.dumps(case, sort_keys=True), nontrivial=nontrivial,
             sample={'case': {k: case[k] for k in ('orig', 'dest', 'n', 'tag')}, 'outcome': 'ok' if res['ok'] else res['kind']})
    return res, fails


def flush(ctx, pending: list, diverged: list):
    if not pending:
        return
    ops = [p[2] for p in pending]
    iops = [p[3]['op'] for p in pending if p[3] is not None]
    outs = ctx.driver.outs(ops + iops)
    fouts, iouts = outs[:len(ops)], outs[len(ops):]
    k = 0
    for (case, res, _, rs), out in zip(pending, fouts):
        d = compare_flight(case, res, out)
        if d:
            ctx.diverge('c02.fly vs LegacyBuilder.fly', case, d)
            diverged.append(case)
        elif res['ok']:
            ctx.count('flight-bitwise' if exact_fraction(res, out) == 1.0 else 'flight-within-rtol')
        if 'err' in out:
            ctx.count('model:' + out['err'])
        if rs is not None:
            mo = iouts[k]
            k += 1
            for name, a, b in zip(L.FIELDS, rs['impl'], mo):
                bb = [u2f(x) for x in b]
                if len(a) != len(bb) or not all(close(x, y, rtol=1e-12, atol=0.0) for x, y in zip(a, bb)):
                    ctx.diverge('c02.interp vs Trajectory.interpolate_time', case, f'field {name}')
                    diverged.append(case)
                    break
            else:
                ctx.count('resample-agrees')
    pending.clear()


def widen(ctx, case: dict, budget: int):
    """search around a diverging flight for an input on which a clause fails (other step sizes, other routes, same table)"""
    rng = make_rng(PID, ctx.seed, 'widen' + json.dumps(case, sort_keys=True))
    for _ in range(budget):
        c2 = json.loads(json.dumps(case))
        u = rng.random()
        if u < 0.5:
            c2['n'] = [int(rng.choice(L.N_CHOICES)) for _ in range(3)]
        elif u < 0.8:
            o, d, tag = L.gen_route(rng)
            c2.update(orig=o, dest=d, tag=tag)
        else:
            c2['iterate'] = not c2['iterate']
        res = L.run_flight(c2)
        ctx.count('widened-search')
        if res['ok']:
            fl = flight_clauses(c2, res) + resample_clauses(res)[0]
            for clause, detail in fl:
                ctx.clause_fail(clause, c2, finding=None, detail=detail)
            if fl:
                return


# --------------------------------------------------------------------------- corpus / replay
def run_corpus_entry(ctx, entry: dict, pending: list) -> list:
    case = entry['case']
    if case.get('kind') == 'container':
        outs, mop, fails = run_container(case)
        d = compare_container(outs, ctx.driver.outs([mop])[0])
        if d:
            ctx.diverge('c02.cont_run vs Container', case, d)
        for clause, detail in fails:
            ctx.clause_fail(clause, case, finding=None, detail=detail)
        ctx.case('corpus:' + json.dumps(case, sort_keys=True), nontrivial=True)
        return fails
    res, fails = eval_flight(ctx, case, pending)
    if entry.get('expect') == 'ok' and not res['ok']:
        # corpus entries of repaired defects: this mission is inside the envelope and was flown by the repaired code
        f = ('a mission inside the envelope is flown', f"refused with {res['exc']!r}")
        ctx.clause_fail(f[0], case, finding=None, detail=f[1])
        fails = fails + [f]
    return fails


def replay(ctx, path) -> int:
    aeic_setup()
    data = json.loads(Path(path).read_text())
    entries = []
    if 'first' in data:
        entries = [{'case': v['case']} for v in [data['first']] + data.get('others', []) if isinstance(v.get('case'), dict)]
    elif 'case' in data:
        entries = [data]
    for d in data.get('divergences', []):
        if isinstance(d.get('case'), dict):
            entries.append({'case': d['case']})
    bad = 0
    pending: list = []
    for e in entries:
        fails = run_corpus_entry(ctx, e, pending)
        for clause, detail in fails:
            print(f'REPLAY clause fails: {clause}: {detail}')
        bad += bool(fails)
    div: list = []
    flush(ctx, pending, div)
    for d in ctx.divergences:
        print(f"REPLAY model/implementation differ: {d['correspondence']}: {d['detail']}")
    print(f'[{PID}] replay {path}: {len(entries)} case(s), {bad} with failing clauses, {len(ctx.divergences)} divergences')
    return 1 if (bad or ctx.divergences) else 0


# --------------------------------------------------------------------------- main
def main(ctx) -> int:
    ctx.proofs()
    aeic_setup()
    from AEIC.config import Config

    try:
        pending: list = []
        diverged: list = []
        # 1. corpus first
        cdir = CORPUS_DIR / PID
        if cdir.is_dir():
            for p in sorted(cdir.glob('*.json')):
                fails = run_corpus_entry(ctx, json.loads(p.read_text()), pending)
                ctx.count('corpus')
                if fails:
                    ctx.notes.append(f'corpus entry {p.name} fails again')
        flush(ctx, pending, diverged)

        # 2. container op sequences
        ncont = ctx.scale(quick=60, thorough=600)
        cont = []
        for _ in range(ncont):
            case = _container_case(ctx.rng)
            outs, mop, fails = run_container(case)
            cont.append((case, outs, mop))
            for clause, detail in fails:
                ctx.clause_fail(clause, case, finding=None, detail=detail)
            ctx.case('cont:' + json.dumps(case, sort_keys=True), nontrivial=case['n'] >= 50,
                     sample={'container': case})
            ctx.count('container:' + ('crosses-boundary' if case['n'] > 50 else 'single-block'))
        for (case, outs, _), mo in zip(cont, ctx.driver.outs([c[2] for c in cont])):
            d = compare_container(outs, mo)
            if d:
                ctx.diverge('c02.cont_run vs Container', case, d)

        # 3. flights (structured / boundary / malformed streams are mixed by gen_case: elevations above the cruise
        #    level and the ceiling, routes shorter than climb + descent, tables that do not cover the flight)
        nfl = ctx.scale(quick=200, thorough=3200)
        for k in range(nfl):
            case = L.gen_case(ctx.rng)
            eval_flight(ctx, case, pending)
            if len(pending) >= 40:
                flush(ctx, pending, diverged)
        flush(ctx, pending, diverged)

        # 3b. a schedule flown by ONE builder: a handful of routes in rotation, every mission object created for its flight and
        #     dropped afterwards (what a driver loop over a schedule does); every flight must still satisfy all clauses
        import gc as _gc

        base = None
        for _ in range(50):
            base = L.gen_case(ctx.rng)
            if L.run_flight(base)['ok']:
                break
        if base is not None:
            routes = []
            for _ in range(60):
                o, d, tag = L.gen_route(ctx.rng)
                c2 = dict(json.loads(json.dumps(base)), orig=o, dest=d, tag=tag)
                if L.run_flight(c2)['ok']:
                    routes.append(c2)
                if len(routes) >= 5:
                    break
            fleet = L.make_builder(base)
            nsched = ctx.scale(quick=40, thorough=400)
            for k in range(nsched if len(routes) >= 2 else 0):
                case = json.loads(json.dumps(routes[k % len(routes)]))
                res = L.run_flight(case, builder=fleet)
                _gc.collect()
                ctx.count('schedule-on-one-builder')
                ctx.evaluations += 1
                if res['ok']:
                    for clause, detail in flight_clauses(case, res):
                        ctx.clause_fail(clause, dict(case, schedule_position=k, note='flown by one builder after '
                                        f'{k} other flights; every mission object is created for its flight and dropped'),
                                        finding=None, detail=detail)
                        break
                else:
                    ctx.clause_fail('a mission inside the envelope is flown', dict(case, schedule_position=k), finding=None,
                                    detail=f"the same mission was flown by a fresh builder but is refused by the schedule builder: {res['exc']!r}")
                if len(ctx.violations) > 20:
                    break

        # 4. diverging inputs: their clauses were evaluated above; widen the search around them
        for case in diverged[:6]:
            if ctx.violations:
                break
            if case.get('kind') != 'container':
                widen(ctx, case, budget=ctx.scale(quick=6, thorough=40))
        # kernels regenerated from the source by the symbolic translator (translator validation; the bridge to the model is
        # proved in Lean, AeicProofs/Lemmas/KernelBridge2.lean)
        from harness import kernels

        kernels.check_sym(ctx, files={'trajectories/builders/legacy.py'})
        kernels.check_loops(ctx, files={'trajectories/builders/legacy.py', 'trajectories/builders/base.py'},
                            flights=6 if ctx.tier == 'quick' else 60)
        kernels.check_fly_iteration(ctx, flights=24 if ctx.tier == 'quick' else 80)
    finally:
        Config.reset()
    return ctx.finish(RULE, TRUSTED, ASSUME)
