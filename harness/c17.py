"""C17 — each simulated flight is independent of the builder's history and failures.

* histories: sequences of valid and invalid missions (unknown airport, airport above cruise level, table that does not
  cover the flight, route shorter than climb + descent, non-converging mass iteration, mission outside the weather
  domain, caller-supplied starting mass) on ONE real builder; every flight is repeated on a brand-new builder and the
  two outcomes must be bit-identical (trajectory, reported masses) or the same refusal (type and arguments);
* the refusal that surfaces must be the original one: for constructor-stage refusals the harness calls the context
  constructor directly and compares, for run-stage refusals it compares object identity with the exception recorded
  inside the performance model / ground track / weather layer;
* model correspondence: `c17.history` (state machine `Aeic.Builder.fly` over abstract stage outcomes recorded from the
  run: constructor outcome, starting-mass calculation, every `_fly_iteration` call with its residual) predicts which
  iteration's trajectory is returned, the reported masses (bitwise), the refusal, and the builder attributes left behind;
* attribute routing: random `setattr`/`getattr` sequences on a real builder with a stand-in context vs `c17.attrs`.
"""
from __future__ import annotations

import contextlib
import json
import types
from pathlib import Path

import numpy as np

from harness import c0217_lib as L
from harness.common import CORPUS_DIR, ROOT, aeic_setup, f2u, u2f

PID = 'C17'
RULE = ('histories of 3-7 flights on one LegacyBuilder per option set (iterate on/off, max_mass_iters in {1,2,3,5,8,20}, '
        'tolerance in {1e-2,1e-3,5e-2,0.3}, weather on for one history per run), each flight drawn from: flyable mission, '
        'unknown origin/destination code, origin/destination above cruise level, table not covering the flight, short '
        'hop, caller-supplied starting mass; compared with a fresh builder per flight; a history is non-trivial when it '
        'contains at least one failing and one later flight; distinct = distinct history dicts')
TRUSTED = ['Lean 4.33 kernel', 'axioms propext/Classical.choice/Quot.sound', 'Mathlib v4.33',
           'correspondence harness harness/c17.py + harness/c0217_lib.py',
           'stage outcomes (constructor, calc_starting_mass, _fly_iteration residuals) are recorded from the real run and '
           'enter the model as an arbitrary oracle (the theorems quantify over all of them)',
           'the flight physics itself is C02']
ASSUME = ['bit-identity of two runs of the same flight is observed on the implementation, not proved (the model shows the '
          'result is a function of the mission and options only; purity of the stages is what the fresh-builder '
          'comparison samples)',
          'exception messages are compared only between two runs of the same implementation, never with the model']

FINDING_GIVEN = 'C17-given-starting-mass'


def load_own_findings(ctx):
    """the open findings recorded by this builder live in findings_C17.json until merged into known_findings.json"""
    p = ROOT / 'findings_C17.json'
    if p.exists():
        for f in json.loads(p.read_text()):
            if f.get('property') == PID:
                ctx.findings.setdefault(f['id'], f)
                if f.get('status') == 'open':
                    ctx.open_findings.setdefault(f['id'], f)


# --------------------------------------------------------------------------- generators
def gen_mission(rng, kinds=None) -> dict:
    kinds = kinds or ['ok', 'ok', 'ok', 'unknown_orig', 'unknown_dest', 'orig_high', 'dest_high', 'envelope', 'short', 'given',
                      'envelope_start', 'orig_above_low_ceiling']
    kind = str(rng.choice(kinds))
    case = L.gen_case(rng, n_choices=[2, 3, 7, 33, 50, 51])
    case['want'] = kind
    case['perf'] = {'kind': 'sample'} if rng.random() < 0.6 else case['perf']
    if kind in ('ok', 'given', 'envelope', 'envelope_start', 'unknown_orig', 'unknown_dest'):
        o = [float(rng.uniform(-120, -70)), float(rng.uniform(25, 50)), float(rng.uniform(0, 500))]
        d = [o[0] + float(rng.uniform(8, 40)) * (1 if o[0] < -95 else -1), float(rng.uniform(25, 50)), float(rng.uniform(0, 500))]
        case.update(orig=o, dest=d, tag='ordinary', load_factor=1.0)
    if kind == 'unknown_orig':
        case['orig'] = None
        case['origin_code'] = 'Q' + str(int(rng.integers(10, 99)))
    elif kind == 'unknown_dest':
        case['dest'] = None
        case['dest_code'] = 'Q' + str(int(rng.integers(10, 99)))
    elif kind == 'orig_high':
        case['orig'][2] = float(rng.uniform(14500, 20000))
    elif kind == 'dest_high':
        case['dest'][2] = float(rng.uniform(11000, 20000))
    elif kind == 'envelope':
        case['load_factor'] = 0.0
        case['perf'] = {'kind': 'sample'}
        case['dest'] = [case['orig'][0] + 1.5, case['orig'][1] + 1.0, 10.0]
    elif kind == 'orig_above_low_ceiling':
        # the aircraft's declared ceiling is low while its performance table reaches far higher, and the departure airport lies
        # above that ceiling: the mission must be refused by the constructor (not flown above the ceiling, not refused later for
        # another reason)
        case['perf'] = {'kind': 'sample_low', 'max_alt_ft': int(rng.choice([11000, 12000, 12500]))}
        case['orig'][2] = float(rng.uniform(3900.0, 4600.0))
    elif kind == 'envelope_start':
        case['perf'] = {'kind': 'sample_low', 'max_alt_ft': int(rng.choice([12000, 11000, 12500]))}
    elif kind == 'short':
        case['dest'] = [case['orig'][0] + 0.3, float(np.clip(case['orig'][1] + 0.2, -89, 89)), case['dest'][2]]
    elif kind == 'given':
        case['given_mass'] = float(rng.uniform(60000, 80000))
    return case


def gen_history(rng) -> dict:
    opts = {'iterate': bool(rng.random() < 0.5), 'max_iters': int(rng.choice([1, 2, 3, 5, 8, 20])),
            'tol': float(rng.choice([1e-2, 1e-3, 5e-2, 0.3])), 'use_weather': False}
    # step fractions are builder-level options too: one set of phase sizes per history
    n = [int(rng.choice([2, 3, 7, 33, 50, 51])) for _ in range(3)]
    opts['n'] = n
    ms = [gen_mission(rng) for _ in range(int(rng.integers(3, 8)))]
    for m in ms:
        m.update(iterate=opts['iterate'], max_iters=opts['max_iters'], tol=opts['tol'], n=n)
    return {'opts': opts, 'missions': ms}


def weather_history() -> dict:
    """one history on a weather-enabled builder: inside the test weather domain, outside it, unknown airport, inside"""
    opts = {'iterate': False, 'max_iters': 5, 'tol': 1e-2, 'use_weather': True}
    base = dict(load_factor=1.0, n=[7, 7, 7], perf={'kind': 'sample'}, lhv=43.8e6, given_mass=None, tag='weather',
                departure='2024-09-01T12:00:00', **{k: opts[k] for k in ('iterate', 'max_iters', 'tol')}, use_weather=True)
    bos = [-71.0079, 42.36197, 6.096]
    jfk = [-73.7789, 40.639801, 3.96]
    lax = [-118.407997, 33.942501, 38.1]
    ms = [dict(base, orig=bos, dest=jfk, want='ok'), dict(base, orig=bos, dest=lax, want='weather'),
          dict(base, orig=None, origin_code='Q77', dest=jfk, want='unknown_orig'), dict(base, orig=bos, dest=jfk, want='ok')]
    return {'opts': opts, 'missions': ms}


def weather_history_missing_day() -> dict:
    """weather-enabled builder: a day whose weather file exists, then twice a day whose file is missing (rejected both
    times, for the same reason), then the good day again"""
    h = weather_history()
    good = h['missions'][0]
    bad = dict(good, departure='2024-09-02T12:00:00', want='weather')
    bad2 = dict(good, departure='2024-09-02T18:30:00', want='weather')
    h['missions'] = [good, bad, dict(bad), bad2, dict(good, departure='2024-09-01T15:00:00'), bad, good]
    return h


# --------------------------------------------------------------------------- running
@contextlib.contextmanager
def record_stages(builder, log: list):
    """records calc_starting_mass / _fly_iteration of `builder` (patched on the classes, filtered by instance) and
    exceptions raised inside the weather layer"""
    from AEIC.trajectories.builders.base import Builder
    from AEIC.trajectories.builders.legacy import LegacyBuilder
    from AEIC.weather import Weather

    o_calc, o_it, o_w = LegacyBuilder.calc_starting_mass, Builder._fly_iteration, Weather.get_ground_speed

    def calc(self):
        if self is not builder:
            return o_calc(self)
        try:
            sm = o_calc(self)
        except Exception as e:
            log.append(('calc', 'err', e))
            raise
        log.append(('calc', float(sm), float(self.total_fuel_mass)))
        return sm

    def it(self):
        if self is not builder:
            return o_it(self)
        sm, tfm = self.starting_mass, self.total_fuel_mass
        try:
            traj, res = o_it(self)
        except Exception as e:
            log.append(('it', sm, tfm, 'err', e))
            raise
        log.append(('it', float(sm), float(tfm), float(res), traj))
        return traj, res

    def gs(self, *a, **k):
        try:
            return o_w(self, *a, **k)
        except Exception as e:
            log.append(('weather', e))
            raise

    LegacyBuilder.calc_starting_mass, Builder._fly_iteration, Weather.get_ground_speed = calc, it, gs
    try:
        yield
    finally:
        LegacyBuilder.calc_starting_mass, Builder._fly_iteration, Weather.get_ground_speed = o_calc, o_it, o_w


def probe_ctor(case: dict):
    """the original constructor-stage outcome: call the context constructor directly on a throw-away builder"""
    from AEIC.trajectories.builders.legacy import LegacyContext

    b = L.make_builder(case)
    try:
        LegacyContext(builder=b, ac_performance=L.perf_model(case['perf']), mission=L.make_mission(case), starting_mass=None)
        return None
    except Exception as e:  # noqa: BLE001
        return e


def same_exc(a, b) -> bool:
    return type(a) is type(b) and [str(x) for x in a.args] == [str(x) for x in b.args]


def outcome_key(res: dict):
    if res['ok']:
        return ('ok', [[f2u(x) for x in c] for c in res['cols']], f2u(res['sm']), f2u(res['tfm']), res['n'])
    return ('err', type(res['exc']).__name__, [str(x) for x in res['exc'].args])


CTOR_NAME = {'unknown_orig': 'unknownAirport', 'unknown_dest': 'unknownAirport', 'orig_high': 'originAboveCruise',
             'dest_high': 'destAboveCruise'}


def run_history(ctx, hist: dict, as_is_model=False, intended=False):
    """returns (model op, expected model outputs to compare, clause failures [(clause, case, detail, finding)])"""
    fails = []
    # every builder-level option (incl. the step fractions) comes from the history, not from the mission
    n_hist = hist['opts'].get('n') or hist['missions'][0]['n']
    shared = L.make_builder({**hist['missions'][0], **hist['opts'], 'n': n_hist})
    mj, impl = [], []
    for idx, case in enumerate(hist['missions']):
        case = {**case, **{k: hist['opts'][k] for k in ('iterate', 'max_iters', 'tol')}, 'use_weather': hist['opts']['use_weather'],
                'n': n_hist}
        log: list = []
        with record_stages(shared, log):
            res = L.run_flight(case, builder=shared)
        fresh = L.run_flight(case, builder=L.make_builder(case))
        ctx.count('flight:' + ('ok' if res['ok'] else res['kind']))
        where = f'flight {idx} ({case.get("want")}) of history'
        # --- clause: same result as a brand-new builder
        if outcome_key(res) != outcome_key(fresh):
            a, b = outcome_key(res), outcome_key(fresh)
            fails.append(('a flight gives the same result as on a brand-new builder', hist,
                          f'{where}: shared builder -> {a[0]} {a[1] if a[0] == "err" else ""}, fresh builder -> {b[0]} {b[1] if b[0] == "err" else ""}', None))
        # --- clause: builder left clean
        if 'ctx' in vars(shared):
            fails.append(('no context is left on the builder after a flight', hist, where, None))
        # --- clause: an airport above the aircraft's ceiling is rejected for THAT reason (independent of the constructor probe
        #     below, which asks the implementation itself): a departure airport whose own elevation exceeds the declared ceiling can
        #     be flown by no altitude schedule; the refusal must come from the mission set-up of the builder (it mentions the
        #     departure airport / the cruise level), not from somewhere deeper for an unrelated reason, and nothing may be flown
        try:
            ceiling = float(L.perf_model(case['perf']).maximum_altitude)
        except Exception:  # noqa: BLE001
            ceiling = None
        if ceiling is not None and case.get('orig') is not None and float(case['orig'][2]) > ceiling + 1.0 and case.get('given_mass') is None:
            if res['ok']:
                fails.append(('a rejected mission surfaces the original reason', hist,
                              f'{where}: departure airport at {case["orig"][2]:.0f} m is above the aircraft ceiling {ceiling:.0f} m, yet a '
                              f'trajectory was returned (highest point {max(res["cols"][L.FIELDS.index("altitude")]):.0f} m)', None))
            else:
                import traceback as _tb

                msg = str(res['exc']).lower()
                tbk = _tb.extract_tb(res['exc'].__traceback__)
                deepest = tbk[-1].filename if tbk else ''
                if not ('cruise' in msg or 'departure' in msg or 'airport' in msg or deepest.endswith('builders/legacy.py')):
                    fails.append(('a rejected mission surfaces the original reason', hist,
                                  f'{where}: departure airport above the ceiling, but the refusal is {res["exc"]!r} raised in {deepest}', None))
        # --- clause: the original reason surfaces
        e0 = probe_ctor(case)
        ctor = 'ok'
        if e0 is not None:
            ctor = CTOR_NAME.get(case.get('want'), 'weather' if hist['opts']['use_weather'] else 'descentNegative')
            if res['ok'] or not same_exc(res['exc'], e0):
                got = 'a trajectory' if res['ok'] else repr(res['exc'])
                fails.append(('a rejected mission surfaces the original reason', hist,
                              f'{where}: context constructor refuses with {e0!r}, fly gave {got}', None))
        elif not res['ok']:
            kind = res['kind']
            wexc = [x[1] for x in log if x[0] == 'weather']
            if wexc and res['exc'] is wexc[-1]:
                kind = 'weather'
            if kind.startswith('internal') or kind == 'ctor':
                fid = FINDING_GIVEN if (case.get('given_mass') is not None and isinstance(res['exc'], TypeError)) else None
                fails.append(('a rejected mission surfaces the original reason', hist,
                              f'{where}: no stage refused, fly raised {res["exc"]!r}', fid, idx))
            res['kind'] = kind
        # --- clause: mass iteration within tolerance or non-convergence
        if res['ok'] and hist['opts']['iterate']:
            mass_end = res['cols'][L.IX['aircraft_mass']][-1]
            resid = (res['tfm'] - (res['sm'] - mass_end)) / res['tfm']
            if not abs(resid) < hist['opts']['tol']:
                fails.append(('a returned trajectory has leftover trip fuel within the relative tolerance', hist,
                              f'{where}: residual {resid!r} tol {hist["opts"]["tol"]}', None))
        # --- model input: the recorded stage outcomes
        calc = [x for x in log if x[0] == 'calc']
        its = [x for x in log if x[0] == 'it']
        kindmap = {'envelope': 'envelope', 'track': 'track', 'weather': 'weather'}

        def ename(e):
            if res['ok']:
                return 'envelope'
            return kindmap.get(res['kind'], 'envelope') if e is res['exc'] else 'envelope'

        m = {'ctor': ctor, 'given': case.get('given_mass') is not None,
             'given_mass': (f2u(case['given_mass']) if case.get('given_mass') is not None else None),
             'calc': ([f2u(calc[0][1]), f2u(calc[0][2])] if calc and calc[0][1] != 'err' else (ename(calc[0][2]) if calc else 'oracleMiss')),
             'its': [[f2u(x[1]), f2u(x[2]), (f2u(x[3]) if x[3] != 'err' else ename(x[4]))] if x[1] is not None and x[2] is not None
                     else [0, 0, 'noFuelLoad'] for x in its]}
        mj.append(m)
        ret_idx = None
        if res['ok']:
            for k, x in enumerate(its):
                if x[3] != 'err' and x[4] is res['traj']:
                    ret_idx = k
        impl.append({'res': res, 'ret_idx': ret_idx, 'has_ctx': 'ctx' in vars(shared), 'dirty': 'current_mass' in vars(shared)})
    op = {'op': 'c17.history', 'iterate': hist['opts']['iterate'], 'max_iters': hist['opts']['max_iters'],
          'tol': f2u(hist['opts']['tol']), 'missions': mj, 'as_is': bool(as_is_model), 'intended': bool(intended)}
    return op, impl, fails


MODEL_KIND = dict(L.MODEL_KIND, weather='weather')


def compare_history(hist, impl, mout) -> str | None:
    for idx, (im, mo) in enumerate(zip(impl, mout)):
        res = im['res']
        case = hist['missions'][idx]
        if res['ok']:
            if 'err' in mo:
                return f'flight {idx}: implementation returns a trajectory, model refuses with {mo["err"]}'
            if mo['it'] != im['ret_idx']:
                return f'flight {idx}: returned trajectory is iteration {im["ret_idx"]}, model says {mo["it"]}'
            if mo['sm'] != f2u(res['sm']) or mo['tfm'] != f2u(res['tfm']):
                return f'flight {idx}: reported masses impl {res["sm"]!r},{res["tfm"]!r} model {u2f(mo["sm"])!r},{u2f(mo["tfm"])!r}'
        else:
            if 'err' not in mo:
                return f'flight {idx}: implementation refuses ({res["exc"]!r}), model returns iteration {mo.get("it")}'
            want = MODEL_KIND.get(mo['err'], mo['err'])
            kind = res['kind']
            if kind == 'internal:TypeError' and case.get('given_mass') is not None and mo['err'] == 'noFuelLoad':
                pass
            elif want == 'ctor':
                if kind not in ('ctor', 'internal:FileNotFoundError'):
                    return f'flight {idx}: constructor refusal expected, implementation raised {res["exc"]!r}'
            elif kind != want:
                return f'flight {idx}: refusal impl {kind} ({res["exc"]!r}) model {mo["err"]}'
        if mo['has_ctx'] != im['has_ctx'] or mo['dirty'] != im['dirty']:
            return f'flight {idx}: builder attributes after the flight: impl ctx={im["has_ctx"]} current_mass={im["dirty"]}, model {mo["has_ctx"]},{mo["dirty"]}'
    return None


# --------------------------------------------------------------------------- attribute routing
def attrs_case(rng) -> dict:
    names = ['options', 'frac_step_clm', 'fuel_LHV', 'starting_mass', 'total_fuel_mass', 'mission', 'current_mass', 'weather', 'zeta']
    ctx_names = [n for n in ['starting_mass', 'total_fuel_mass', 'mission', 'weather', 'crz_start_altitude'] if rng.random() < 0.7]
    ops = []
    for _ in range(int(rng.integers(4, 14))):
        n = str(rng.choice(names))
        ops.append(['set', n, int(rng.integers(1, 1000))] if rng.random() < 0.55 else ['get', n])
    return {'kind': 'attrs', 'ctx': ctx_names if rng.random() < 0.85 else None, 'ops': ops}


def run_attrs(case: dict):
    import AEIC.trajectories.builders as tb

    b = tb.LegacyBuilder()
    for k in list(vars(b)):
        object.__setattr__(b, k, 0)
    dict0 = list(vars(b))
    if case['ctx'] is not None:
        object.__setattr__(b, 'ctx', types.SimpleNamespace(**{n: 0 for n in case['ctx']}))
    out = []
    for op in case['ops']:
        if op[0] == 'set':
            setattr(b, op[1], op[2])
            out.append('ok')
        else:
            try:
                out.append(int(getattr(b, op[1])))
            except AttributeError:
                out.append('AttributeError')
    d = [k for k in vars(b) if k != 'ctx']
    c = list(vars(b.ctx)) if case['ctx'] is not None else None
    mop = {'op': 'c17.attrs', 'dict': dict0, 'ctx': case['ctx'], 'ops': case['ops']}
    return {'out': out, 'dict': d, 'ctx': c}, mop


# --------------------------------------------------------------------------- corpus / replay
def eval_history(ctx, hist, tag='history'):
    op, impl, fails = run_history(ctx, hist)
    mout = ctx.driver.outs([op])[0]
    d = compare_history(hist, impl, mout)
    if d and any(m.get('given_mass') is not None for m in hist['missions']):
        # open finding C17-given-starting-mass: an implementation that agrees with the *intended* variant is accepted too
        mout2 = ctx.driver.outs([dict(op, intended=True)])[0]
        if compare_history(hist, impl, mout2) is None:
            d, mout = None, mout2
            ctx.count('agrees-with-intended-variant')
    if d:
        ctx.diverge('c17.history vs LegacyBuilder.fly sequence', hist, d)
    fails = [tuple(f) + (None,) * (5 - len(f)) for f in fails]
    for clause, case, detail, fid, idx in fails:
        # a failure is attributed to the open finding only when the as-is model predicts exactly it for this flight
        if fid is not None and not (idx is not None and mout[idx].get('err') == 'noFuelLoad'):
            fid = None
        ctx.clause_fail(clause, case, finding=fid, detail=detail)
    kinds = [('ok' if i['res']['ok'] else 'fail') for i in impl]
    nontrivial = 'fail' in kinds[:-1]
    ctx.case(tag + ':' + json.dumps(hist, sort_keys=True), nontrivial=nontrivial,
             sample={'wants': [m.get('want') for m in hist['missions']], 'outcomes': kinds, 'opts': hist['opts']})
    return fails, d


def replay(ctx, path) -> int:
    aeic_setup()
    load_own_findings(ctx)
    data = json.loads(Path(path).read_text())
    hists = []
    for v in ([data.get('first')] if data.get('first') else []) + data.get('others', []) + data.get('divergences', []) + ([data] if 'case' in data else []):
        if isinstance(v, dict) and isinstance(v.get('case'), dict) and 'missions' in v['case']:
            hists.append(v['case'])
    bad = 0
    for h in hists:
        fails, d = eval_history(ctx, h, 'replay')
        for clause, _, detail, fid, _i in fails:
            print(f'REPLAY clause fails{" (known finding " + fid + ")" if fid else ""}: {clause}: {detail}')
        if d:
            print(f'REPLAY model/implementation differ: {d}')
        bad += bool([f for f in fails if f[3] is None]) or bool(d)
    print(f'[{PID}] replay {path}: {len(hists)} history(ies), {bad} failing')
    return 1 if bad else 0


def main(ctx) -> int:
    ctx.proofs()
    aeic_setup()
    load_own_findings(ctx)
    from AEIC.config import Config

    try:
        cdir = CORPUS_DIR / PID
        if cdir.is_dir():
            for p in sorted(cdir.glob('*.json')):
                fails, d = eval_history(ctx, json.loads(p.read_text())['case'], 'corpus')
                ctx.count('corpus')
                if fails or d:
                    ctx.notes.append(f'corpus entry {p.name} fails again')
        # weather-enabled builder (one fixed history: inside the domain / outside / unknown airport / inside)
        try:
            eval_history(ctx, weather_history(), 'weather')
            eval_history(ctx, weather_history_missing_day(), 'weather')
            ctx.count('weather-history', 2)
        except FileNotFoundError:
            ctx.notes.append('test weather data not available: weather history skipped')
        nh = ctx.scale(quick=45, thorough=900)
        diverged = []
        for _ in range(nh):
            hist = gen_history(ctx.rng)
            fails, d = eval_history(ctx, hist)
            if d:
                diverged.append(hist)
        # attribute routing
        na = ctx.scale(quick=300, thorough=5000)
        cases, impls, mops = [], [], []
        for _ in range(na):
            c = attrs_case(ctx.rng)
            im, mop = run_attrs(c)
            cases.append(c)
            impls.append(im)
            mops.append(mop)
        for c, im, mo in zip(cases, impls, ctx.driver.outs(mops)):
            if im['out'] != mo['out'] or sorted(im['dict']) != sorted(mo['dict']) or \
                    (None if im['ctx'] is None else sorted(im['ctx'])) != (None if mo['ctx'] is None else sorted(mo['ctx'])):
                ctx.diverge('c17.attrs vs Builder.__getattr__/__setattr__', c, f'impl {im} model {mo}')
            ctx.case('attrs:' + json.dumps(c, sort_keys=True), nontrivial=c['ctx'] is not None)
            ctx.count('attrs')
        # widened search around diverging histories: every single mission of them after every failing kind
        if diverged and not ctx.violations:
            rng = ctx.rng
            for hist in diverged[:3]:
                for _ in range(ctx.scale(quick=4, thorough=20)):
                    h2 = {'opts': hist['opts'], 'missions': [gen_mission(rng, ['unknown_orig', 'orig_high', 'envelope']),
                                                            json.loads(json.dumps(hist['missions'][int(rng.integers(0, len(hist['missions'])))]))]}
                    eval_history(ctx, h2, 'widened')
                    ctx.count('widened-search')
        # the residual and the correction of the mass iteration, regenerated from builders/base.py (translator validation; the
        # bridge to the model is proved in Lean, KernelBridge3.iterate_mass)
        from harness import kernels

        kernels.check_loops(ctx, files={'trajectories/builders/base.py'}, flights=6 if ctx.tier == 'quick' else 60)
        kernels.check_fly_iteration(ctx, flights=24 if ctx.tier == 'quick' else 200)
    finally:
        Config.reset()
    return ctx.finish(RULE, TRUSTED, ASSUME)
