"""C09 — a merged store equals the concatenation of its input stores."""
from __future__ import annotations

import gc
import json

from harness.common import aeic_setup
from harness.merge_impl import build_inputs, canon_model_fs, do_merge, gen_stores, listing, model_files, read_all
from harness.store_impl import RealStore, canon_impl, err_kind, fresh_dir, rm_dir

RULE = ('k = 1..5 input stores of 1..4 trajectories each (with or without flight ids, optionally with an extra field set or an '
        'associated file), merged by explicit list or numbered pattern; the merged directory is opened (cache 1 or 64 MB) and '
        'len, every index 0..N+1 and get_flight for every id plus absent ids are compared with the Lean model (locate / '
        'mergedGetFlight / merge) and with the plain concatenation; refusal cases: differing field sets, mixed '
        'identified/unidentified inputs, missing input, existing output; non-trivial = k >= 2; distinct = distinct store layouts')
TRUSTED = ['Lean 4.33 kernel', 'axioms: propext, Classical.choice, Quot.sound (audited per theorem each run)',
           'correspondence harness harness/c09.py + harness/merge_impl.py', 'netCDF4/HDF5 and os.rename/mkdir abstracted as the FS model of AeicModel/Merge.lean']
ASSUME = ['payload contents are opaque (C03)', 'inputs of one merge have distinct file names',
          'species lists are identical across inputs (per-file species lists are C03/C09-species finding territory)']


def flights(path, ids, tags, cache_mb=64):
    from AEIC.trajectories import TrajectoryStore

    ts = TrajectoryStore.open(base_file=path, cache_size_mb=cache_mb)
    out = []
    try:
        for i in ids:
            try:
                t = ts.get_flight(i)
                out.append('none' if t is None else canon_impl(RealStore.tag_of(t), tags))
            except Exception as e:  # noqa: BLE001
                out.append('err:' + err_kind(e))
    finally:
        ts.close()
        gc.collect()
    return out


def one_case(ctx, case: dict):
    """case: {'stores': [...], 'mode': 'list'|'pattern', 'cache_mb': int, 'variant': 'ok'|'fs'|'index'|'missing'|'exists'|'assoc'}"""
    d = fresh_dir()
    try:
        stores = case['stores']
        variant = case['variant']
        out_name = 'merged.aeic-store'
        if variant == 'assoc':
            return assoc_case(ctx, d, case)
        if variant == 'species':
            return species_case(ctx, d, case)
        if variant == 'samename':
            return samename_case(ctx, d, case)
        tags = build_inputs(d, stores)
        names = [s['name'] for s in stores]
        inputs = list(names)
        mfiles = model_files(stores)
        req = {'op': 'merge.merge', 'top': mfiles, 'inputs': inputs}
        if variant == 'missing':
            inputs = inputs + ['nothere.nc']
            req['inputs'] = inputs
        if variant == 'exists':
            (d / out_name).mkdir()
            req['out_exists'] = True
        before = listing(d, out_name)
        pattern = None
        if case['mode'] == 'pattern' and variant in ('ok', 'fs', 'index'):
            pattern = (case['pattern'][0], tuple(case['pattern'][1]))
        res = do_merge(d, out_name, inputs, pattern=pattern)
        after = listing(d, out_name)
        m = ctx.driver.outs([req])[0]
        m_res = 'refused' if m['result'].startswith('refused') else m['result']
        concat = [f"t{a['tag']}" for s in stores for a in s['adds']]
        ids = [a['fid'] for s in stores for a in s['adds'] if a['fid'] is not None]
        key = {'variant': variant, 'layout': [[(a['npts'], a['fid']) for a in s['adds']] for s in stores], 'mode': case['mode']}
        ctx.case(json.dumps(key, sort_keys=True), nontrivial=len(stores) >= 2,
                 sample={'variant': variant, 'sizes': [len(s['adds']) for s in stores], 'mode': case['mode'], 'result': res})
        ctx.count('variant:' + variant)
        ctx.count('result:' + res)
        # ---- clauses on the implementation
        if variant in ('fs', 'index', 'missing', 'exists'):
            if res != 'refused':
                ctx.clause_fail('merge_refuses_mismatch', {**case, 'impl_result': res},
                                detail=f'merge of inputs with {variant} mismatch was not refused: {res}')
                return
            if after != before:
                ctx.clause_fail('refused_merge_touches_nothing', {**case, 'before': before, 'after': after},
                                detail='a refused merge changed the directory')
                return
        else:
            if res != 'ok':
                ctx.clause_fail('merge_succeeds', {**case, 'impl_result': res}, detail=f'valid merge failed: {res}')
                return
            got = read_all(d / out_name, tags, cache_mb=case['cache_mb'])
            trace_locate(ctx, d / out_name, len(concat))
            if got == concat and case.get('remerge'):
                # the same output path is used again in the same process: the merged store is taken apart (directory removed), a
                # DIFFERENT list of inputs (one more store in front, the old ones rebuilt) is merged to the same path and opened
                import shutil as _sh

                _sh.rmtree(d / out_name)
                extra = {'name': 'zz_extra.nc', 'indexed': stores[0].get('indexed', False),
                         'adds': [dict(a, tag=a['tag'] + 5000, fid=(None if a['fid'] is None else a['fid'] + 70000)) for a in stores[-1]['adds'][:2]] or
                                 [{'op': 'add', 'tag': 5999, 'npts': 5, 'fid': (70001 if stores[0].get('indexed') else None)}]}
                stores2 = [extra] + stores
                tags2 = build_inputs(d, stores2)
                res2 = do_merge(d, out_name, [s_['name'] for s_ in stores2])
                concat2 = [f"t{a['tag']}" for s_ in stores2 for a in s_['adds']]
                got2 = read_all(d / out_name, tags2, cache_mb=case['cache_mb']) if res2 == 'ok' else res2
                ctx.count('remerge_same_path')
                if got2 != concat2:
                    ctx.clause_fail('merged_get_eq_concat', {**case, 'second_merge_inputs': [s_['name'] for s_ in stores2], 'impl': got2, 'expected': concat2},
                                    detail='a second merge to the same output path (after the first merged store was removed) does not '
                                           'give the concatenation of ITS inputs')
                    return
            if got != concat:
                ctx.clause_fail('merged_get_eq_concat', {**case, 'impl': got, 'expected': concat},
                                detail='trajectories of the merged store differ from the concatenation of the inputs')
                return
            # beyond the end + model comparison
            mr = ctx.driver.outs([{'op': 'merge.read', 'files': [f['items'] for f in mfiles],
                                   'gets': list(range(len(concat) + 2)), 'flights': ids + [-77, 100000]}])[0]
            if mr['gets'][: len(concat)] != concat or mr['len'] != len(concat):
                ctx.diverge('merged read model vs concatenation', {**case, 'model': mr})
            if ids:
                fl = flights(d / out_name, ids + [-77, 100000], tags, cache_mb=case['cache_mb'])
                want = [f"t{a['tag']}" for s in stores for a in s['adds']] + ['none', 'none']
                if fl != want:
                    ctx.clause_fail('merged_flight_lookup', {**case, 'impl': fl, 'expected': want, 'ids': ids},
                                    detail='get_flight on the merged store does not return the trajectory added with that id')
                    return
                if mr['flights'] != want:
                    ctx.diverge('merged flight model vs dictionary', {**case, 'model': mr['flights'], 'expected': want})
        # ---- correspondence: directory listing and outcome class
        if res != m_res:
            ctx.diverge('merge outcome model vs implementation', {**case, 'impl': res, 'model': m['result']})
        elif canon_model_fs(m['fs']) != after and variant != 'exists':
            ctx.diverge('merge file-system model vs implementation', {**case, 'impl': after, 'model': canon_model_fs(m['fs'])})
    finally:
        rm_dir(d)


def assoc_case(ctx, d, case):
    """Base + associated file per input; both merged separately; opened together.
    With case['resplit'] the associated store is merged from a *second run* over the same trajectories that was split into
    files at other points (same number of files): the library accepts this (an associated file only records the identity of
    the base field set), and C09 says each merged store equals the concatenation of its own inputs (seed C09_4)."""
    from AEIC.trajectories import TrajectoryStore

    stores = case['stores']
    s0 = RealStore(d)
    exp = []
    flat = [a for st in stores for a in st['adds']]
    sizes = [len(st['adds']) for st in stores]
    sizes_b = list(sizes)
    if case.get('resplit') and len(sizes) >= 2:
        # move one trajectory across the first boundary that allows it
        for j in range(len(sizes) - 1):
            if sizes_b[j] >= 2:          # (every re-split input keeps at least one trajectory: an empty store is not an identified one)
                sizes_b[j] -= 1
                sizes_b[j + 1] += 1
                break
    pos = 0
    for j, st in enumerate(stores):
        ts = TrajectoryStore.create(base_file=d / f'b{j}.nc', associated_files=[(d / f'a{j}.nc', ['c07_extra'])])
        for a in st['adds']:
            t = s0.make(a['tag'], a['npts'], a['fid'], extra=True)
            ts.add(t)
            exp.append((f"t{a['tag']}", float(t.x1[-1])))
        ts.close()
    assoc_names = [f'a{j}.nc' for j in range(len(stores))]
    if sizes_b != sizes:
        assoc_names = []
        for j, nb in enumerate(sizes_b):
            ts = TrajectoryStore.create(base_file=d / f'rb{j}.nc', associated_files=[(d / f'ra{j}.nc', ['c07_extra'])])
            for a in flat[pos:pos + nb]:
                ts.add(s0.make(a['tag'], a['npts'], a['fid'], extra=True))
            pos += nb
            ts.close()
            assoc_names.append(f'ra{j}.nc')
        ctx.count('variant:assoc_resplit')
    gc.collect()
    r1 = do_merge(d, 'base.aeic-store', [f'b{j}.nc' for j in range(len(stores))])
    r2 = do_merge(d, 'assoc.aeic-store', assoc_names)
    key = {'variant': 'assoc', 'layout': [[(a['npts'], a['fid']) for a in s['adds']] for s in stores], 'sizes_b': sizes_b}
    ctx.case(json.dumps(key, sort_keys=True), nontrivial=len(stores) >= 2,
             sample={'variant': 'assoc', 'sizes': sizes, 'assoc_sizes': sizes_b, 'result': [r1, r2]})
    ctx.count('variant:assoc')
    if (r1, r2) != ('ok', 'ok'):
        ctx.clause_fail('merge_succeeds', {**case, 'impl_result': [r1, r2]}, detail='merge of base/associated files failed')
        return
    try:
        ts = TrajectoryStore.open(base_file=d / 'base.aeic-store', associated_files=[d / 'assoc.aeic-store'],
                                  cache_size_mb=case['cache_mb'])
        got = []
        for i in range(len(ts)):
            t = ts[i]
            got.append((t.name, float(t.x1[-1])))
        ts.close()
    except Exception as e:  # noqa: BLE001
        ctx.clause_fail('merged_associated_aligned', {**case, 'error': err_kind(e)},
                        detail='opening / reading merged base + merged associated stores failed')
        return
    finally:
        gc.collect()
    if got != exp:
        ctx.clause_fail('merged_associated_aligned', {**case, 'impl': got, 'expected': exp},
                        detail='associated data of the merged stores is not aligned with the base data')


SPECIES_POOL = ['CO2', 'H2O', 'HC', 'CO', 'NOx', 'SO2', 'SO4', 'PMvol']


def species_case(ctx, d, case):
    """Inputs whose species-indexed field recorded different species lists; merged; every trajectory must read back with
    exactly the species it was stored with."""
    import numpy as np
    from AEIC.storage import Dimensions, FieldMetadata, FieldSet
    from AEIC.trajectories import TrajectoryStore
    from AEIC.types import Species, SpeciesValues

    if not FieldSet.known('c09_sp'):
        FieldSet('c09_sp', tot=FieldMetadata(dimensions=Dimensions.from_abbrev('TS'), description='verification species field', units='g'))
    s0 = RealStore(d)
    exp, mfiles = [], []
    for j, st in enumerate(case['stores']):
        ts = TrajectoryStore.create(base_file=d / f's{j}.nc')
        rows = []
        file_species = sorted({sp for a in st['adds'] for sp in a['species']}, key=lambda n: Species[n].value)
        for a in st['adds']:
            t = s0.make(a['tag'], a['npts'], None)
            t.add_fields(FieldSet.from_registry('c09_sp'))
            vals = {sp: 100 * a['tag'] + q for q, sp in enumerate(a['species'])}
            t.tot = SpeciesValues({Species[sp]: float(v) for sp, v in vals.items()})
            ts.add(t)
            exp.append(sorted(vals.items(), key=lambda kv: Species[kv[0]].value))
            rows.append([vals.get(sp) for sp in file_species])
        ts.close()
        mfiles.append([file_species, rows])
    gc.collect()
    res = do_merge(d, 'sp.aeic-store', [f's{j}.nc' for j in range(len(case['stores']))])
    key = {'variant': 'species', 'layout': [[a['species'] for a in s['adds']] for s in case['stores']]}
    ctx.case(json.dumps(key, sort_keys=True), nontrivial=len(case['stores']) >= 2,
             sample={'variant': 'species', 'species': [[a['species'] for a in s['adds']] for s in case['stores']]})
    ctx.count('variant:species')
    if res != 'ok':
        ctx.clause_fail('merge_succeeds', {**case, 'impl_result': res}, detail='merge of stores with species fields failed')
        return
    try:
        ts = TrajectoryStore.open(base_file=d / 'sp.aeic-store', cache_size_mb=case['cache_mb'])
        got = []
        for i in range(len(ts)):
            v = ts[i].tot
            got.append(sorted(((sp.name, int(round(float(x)))) for sp, x in v.items()), key=lambda kv: Species[kv[0]].value))
        ts.close()
    except Exception as e:  # noqa: BLE001
        ctx.clause_fail('merged_species_per_file', {**case, 'error': err_kind(e)}, detail='reading species values from the merged store failed')
        return
    finally:
        gc.collect()
    want = [[(k, int(v)) for k, v in e] for e in exp]
    if got != want:
        ctx.clause_fail('merged_species_per_file', {**case, 'impl': got, 'expected': want},
                        detail='species-indexed values of the merged store are not those of the concatenated inputs')
        return
    m = ctx.driver.outs([{'op': 'merge.decoded', 'files': mfiles, 'gets': list(range(len(want)))}])[0]
    if [[(a, b) for a, b in r] for r in m] != want:
        ctx.diverge('merged species decode: model vs implementation', {**case, 'model': m, 'impl': got})


def samename_case(ctx, d, case):
    """Inputs in different directories whose FILE NAMES are equal (`a/x.nc`, `b/x.nc`, …): they would overwrite each other in the
    merged directory. The merge must either produce the concatenation or refuse and touch nothing — and the model refuses."""
    from AEIC.trajectories import TrajectoryStore

    stores = case['stores']
    out_name = 'merged.aeic-store'
    tags = {}
    paths = []
    for j, st in enumerate(stores):
        sub = d / f'dir{j}'
        sub.mkdir()
        tags.update(build_inputs(sub, [dict(st, name='x.nc')]))
        paths.append(sub / 'x.nc')
    before = {str(p): p.stat().st_size for p in paths}
    concat = [f"t{a['tag']}" for s in stores for a in s['adds']]
    try:
        TrajectoryStore.merge(d / out_name, list(paths))
        res = 'ok'
    except ValueError:
        res = 'refused'
    except Exception as e:  # noqa: BLE001
        res = 'err:' + err_kind(e)
    gc.collect()
    mfiles = model_files([dict(stores[0], name='x.nc')])
    m = ctx.driver.outs([{'op': 'merge.merge', 'top': mfiles, 'inputs': ['x.nc'] * len(stores)}])[0]
    m_res = 'refused' if m['result'].startswith('refused') else m['result']
    key = {'variant': 'samename', 'layout': [[(a['npts'], a['fid']) for a in s['adds']] for s in stores]}
    ctx.case(json.dumps(key, sort_keys=True), nontrivial=True, sample={'variant': 'samename', 'sizes': [len(s['adds']) for s in stores], 'result': res})
    ctx.count('variant:samename')
    ctx.count('result:' + res)
    public = {**case, 'input_paths': [f'dir{j}/x.nc' for j in range(len(stores))]}
    if res == 'ok':
        got = read_all(d / out_name, tags, cache_mb=case['cache_mb'])
        if got != concat:
            ctx.clause_fail('merged_get_eq_concat', {**public, 'impl': got, 'expected': concat},
                            detail='inputs with equal file names in different directories: the merged store is not the concatenation of the inputs '
                                   '(the inputs overwrite each other in the merged directory)')
            return
    elif res == 'refused':
        after = {str(p): (p.stat().st_size if p.exists() else None) for p in paths}
        if after != before or (d / out_name).exists():
            ctx.clause_fail('refused_merge_touches_nothing', {**public, 'before': before, 'after': after},
                            detail='a merge refused for equal input file names moved or changed an input, or left the output directory')
            return
    else:
        ctx.clause_fail('merge_succeeds', {**public, 'impl_result': res}, detail=f'merge of inputs with equal file names failed with {res}')
        return
    if res != m_res:
        ctx.diverge('merge outcome model vs implementation (equal input file names)', {**public, 'impl': res, 'model': m['result']})


def trace_locate(ctx, path, n):
    """Validates what `harness/common/locprog.py` read from `_load_trajectory` (which bisect, needle and local offsets, the guard)
    against the running code: for every index of a real merged store (and two past the end) the frame of `_load_trajectory` is
    observed at its return and the file / local index it computed are compared with the arithmetic of the extracted parameters
    evaluated on the size index the store holds."""
    import bisect
    import sys

    from harness.common import locprog

    sm = ctx.extra.setdefault('locate_trace', {'lookups': 0, 'mismatches': 0})
    if sm['lookups'] >= ctx.scale(quick=400, thorough=6000):
        return
    try:
        P = locprog.translate()[1]
    except Exception:  # noqa: BLE001  (reported once by ctx.proofs())
        return
    from AEIC.trajectories import TrajectoryStore

    hostf = getattr(TrajectoryStore, P.get('host', '_load_trajectory'), None)
    if hostf is None:
        return
    code = getattr(hostf, '__wrapped__', hostf).__code__
    ivar, fvar, gvar = P['vars']
    obs = []

    def local(frame, event, arg):
        if event == 'return':
            loc = frame.f_locals
            try:
                szv = list(eval(P.get('size_expr', 'nc_files.size_index'), {}, dict(loc)) or [])  # noqa: S307 (an expression of the source)
            except Exception:  # noqa: BLE001
                szv = []
            g_ = loc.get(gvar) if gvar else (arg[1] if isinstance(arg, tuple) and len(arg) == 2 else None)
            obs.append((loc.get(ivar), loc.get(fvar), g_, szv))
        return local

    def tracer(frame, event, arg):
        return local if (event == 'call' and frame.f_code is code) else None

    try:
        ts = TrajectoryStore.open(base_file=path, cache_size_mb=0)
    except Exception:  # noqa: BLE001
        return
    try:
        old = sys.gettrace()
        sys.settrace(tracer)
        try:
            for i in list(range(n)) + [n, n + 1]:
                try:
                    ts[i]
                except Exception:  # noqa: BLE001
                    pass
        finally:
            sys.settrace(old)
    finally:
        try:
            ts.close()
        except Exception:  # noqa: BLE001
            pass
        gc.collect()
    for idx, f, g, size_index in obs:
        if idx is None or not size_index:
            continue
        if size_index != sorted(size_index) or size_index[-1] != n:
            # the size index must hold the cumulative trajectory counts of the files (whichever way the source builds it)
            sm['mismatches'] += 1
            ctx.diverge('size index of a merged store', {'size_index': size_index, 'store_length': n},
                        'the size index is not a non-decreasing list ending at the number of trajectories')
            continue
        sm['lookups'] += 1
        ctx.evaluations += 1
        bis = bisect.bisect_left if P['left'] else bisect.bisect_right
        wf = bis(size_index, idx + P['needle'])
        if wf >= len(size_index):
            want = (wf, None)
            have = (f, None)            # (the local index of an earlier field set may linger; only the file index is compared)
        else:
            want = (wf, idx + P['local'] - size_index[wf + P['shift']])
            have = (f, g)
        if want != have:
            sm['mismatches'] += 1
            if sm['mismatches'] <= 3:
                ctx.diverge('merged lookup parameters read from the source vs TrajectoryStore._load_trajectory',
                            {'index': idx, 'size_index': size_index, 'parameters': {k: P[k] for k in ('left', 'needle', 'local', 'shift', 'guard')}},
                            f'the running code computed (file, local index) = {have}, the extracted arithmetic gives {want}')


def gen_case(rng):
    if rng.random() < 0.10:
        k = int(rng.integers(2, 5))
        stores, tag = [], 0
        for j in range(k):
            adds = []
            # one species set per store: the species dimension of a file is fixed by its first trajectory (C03)
            nsp = int(rng.integers(1, 5))
            sp = [str(x) for x in rng.choice(SPECIES_POOL, size=nsp, replace=False)]
            for _ in range(int(rng.integers(1, 3))):
                adds.append({'op': 'add', 'tag': tag, 'npts': 5, 'fid': None, 'species': sp})
                tag += 1
            stores.append({'name': f's{j}.nc', 'adds': adds})
        return {'stores': stores, 'mode': 'list', 'cache_mb': 64, 'variant': 'species'}
    return gen_case_plain(rng)


def gen_case_plain(rng):
    r = rng.random()
    k = int(rng.integers(1, 6))
    indexed = bool(rng.random() < 0.5)
    mode = 'pattern' if rng.random() < 0.3 else 'list'
    # numbered patterns: zero-padded, or unpadded and crossing a power of ten (then name order != numeric order)
    fmt = 'part_{index:03d}.nc' if rng.random() < 0.4 else 'part_{index}.nc'
    lo = int(rng.choice([0, 7, 8, 9, 98]))

    def pat_names(kk):
        return [fmt.format(index=lo + j) for j in range(kk)]

    names = pat_names(k) if mode == 'pattern' else None
    variant = 'ok'
    if r < 0.08:
        variant = 'fs'
    elif r < 0.16:
        variant = 'index'
    elif r < 0.20:
        variant = 'missing'
    elif r < 0.24:
        variant = 'exists'
    elif r < 0.36:
        variant = 'assoc'
    elif r < 0.42:
        variant = 'samename'
    if variant in ('fs', 'index', 'samename'):
        k = max(k, 2)
        names = pat_names(k) if mode == 'pattern' else None
    stores = gen_stores(rng, k, indexed, names=names)
    if variant == 'fs':
        j = int(rng.integers(0, k))
        stores[j]['extra'] = True
        for a in stores[j]['adds']:
            a['extra'] = True
    if variant == 'index':
        j = int(rng.integers(0, k))
        stores[j]['indexed'] = not indexed
        for n, a in enumerate(stores[j]['adds']):
            a['fid'] = None if indexed else 5000 + 10 * j + n
    return {'stores': stores, 'mode': mode, 'cache_mb': int(rng.choice([1, 64])), 'variant': variant, 'remerge': bool(variant == 'ok' and mode == 'list' and rng.random() < 0.3),
            'pattern': [fmt, [lo, lo + k - 1]], 'resplit': bool(variant == 'assoc' and rng.random() < 0.6)}


def main(ctx):
    ctx.proofs()
    aeic_setup()
    n = ctx.scale(quick=90, thorough=2500)
    from harness.common import CORPUS_DIR

    cases = []
    cd = CORPUS_DIR / 'C09'
    if cd.exists():
        for p in sorted(cd.glob('*.json')):
            cases.append(json.loads(p.read_text())['case'])
    cases += [gen_case(ctx.rng) for _ in range(n)]
    for c in cases:
        one_case(ctx, c)
    return ctx.finish(RULE, TRUSTED, ASSUME)


def replay(ctx, path):
    aeic_setup()
    j = json.loads(open(path).read())
    case = j.get('first', j).get('case', j)
    case = {k: case[k] for k in ('stores', 'mode', 'cache_mb', 'variant', 'pattern', 'resplit', 'remerge') if k in case}
    one_case(ctx, case)
    for v in ctx.violations:
        print('REPLAY-FAIL', v['clause'], v['detail'])
    return 1 if ctx.violations else 0
