"""Deterministic line-level scheduler for two threads racing through `TrajectoryStore.__init__`'s thread guard."""
from __future__ import annotations

import inspect
import sys
import threading


class GuardScheduler:
    def __init__(self, timeout: float = 1.0):
        from AEIC.trajectories import TrajectoryStore

        self.TS = TrajectoryStore
        self.timeout = timeout
        src, first = inspect.getsourcelines(TrajectoryStore.__init__)
        self.code = TrajectoryStore.__init__.__code__
        # guard region: every executable line of __init__ before `self.mode = mode`
        self.guard_end = next(first + i for i, ln in enumerate(src) if ln.strip().startswith('self.mode = mode'))
        self.first = first
        self.src = src
        # class-level state of the guard as it is before any store was created in this process: the owner record, and every
        # class attribute that is a lock (or `None` where a lock is created lazily). Restored before every schedule, so that a
        # schedule that left a thread stuck inside a critical section cannot poison the next ones.
        self.initial: dict[str, object] = {}
        for name, val in list(vars(TrajectoryStore).items()):
            if name.startswith('__'):
                continue
            if val is None or (hasattr(val, 'acquire') and hasattr(val, 'release')):
                self.initial[name] = val

    def line_text(self, no: int) -> str:
        import linecache

        return linecache.getline(self.code.co_filename, no).strip()

    def reset_class_state(self):
        self.TS.active_in_thread = None
        for name, val in self.initial.items():
            cur = getattr(self.TS, name, None)
            if val is None:
                if cur is not None and name != 'active_in_thread':
                    setattr(self.TS, name, None)            # a lazily created lock: back to "not created yet"
            elif cur is not val or (hasattr(cur, 'locked') and cur.locked()):
                try:
                    setattr(self.TS, name, type(val)())      # a fresh, unlocked lock of the same kind
                except Exception:  # noqa: BLE001
                    pass

    def run(self, schedule: list[int], nthreads: int = 2, preowner: int | None = None, region: str = 'guard'):
        """Run `nthreads` threads, each constructing a store, granting one traced line per schedule entry.
        Returns (results, line traces, blocked grants)."""
        self.reset_class_state()
        sem = {i: threading.Semaphore(0) for i in range(nthreads)}
        arrived = {i: threading.Event() for i in range(nthreads)}
        done = {i: False for i in range(nthreads)}
        result: dict[int, str] = {}
        lines: dict[int, list[int]] = {i: [] for i in range(nthreads)}
        idents: dict[int, int] = {}
        code, guard_end = self.code, self.guard_end

        fname = code.co_filename
        depth = {i: 0 for i in range(nthreads)}  # > 0 while inside TrajectoryStore.__init__

        def make_tracer(tid):
            def local(frame, event, arg):
                if region == 'guard':
                    if event == 'line' and frame.f_code is code and frame.f_lineno < guard_end:
                        lines[tid].append(frame.f_lineno)
                        arrived[tid].set()
                        sem[tid].acquire()
                else:
                    # whole constructor: every line of store.py executed while __init__ is on the stack
                    if event == 'line' and depth[tid] > 0 and frame.f_code.co_filename == fname:
                        lines[tid].append(frame.f_lineno)
                        arrived[tid].set()
                        sem[tid].acquire()
                    elif event == 'return' and frame.f_code is code:
                        depth[tid] -= 1
                return local

            def glob(frame, event, arg):
                if frame.f_code is code:
                    depth[tid] += 1
                    return local
                if region != 'guard' and depth[tid] > 0 and frame.f_code.co_filename == fname:
                    return local
                return None

            return glob

        def worker(tid):
            idents[tid] = threading.get_ident()
            sys.settrace(make_tracer(tid))
            try:
                self.TS.create()
                result[tid] = 'ok'
            except RuntimeError:
                result[tid] = 'refused'
            except Exception as e:  # noqa: BLE001
                result[tid] = 'other:' + type(e).__name__
            finally:
                sys.settrace(None)
                done[tid] = True
                arrived[tid].set()

        ths = [threading.Thread(target=worker, args=(i,), daemon=True) for i in range(nthreads)]
        for t in ths:
            t.start()
        for i in range(nthreads):
            arrived[i].wait(5.0)
        blocked = 0
        eff: list[int] = []  # the schedule as the model sees it (a blocked grant is a no-op; a late acquire is a step)
        waiting = {i: True for i in range(nthreads)}  # paused at a line event, needs a grant to continue

        def expect_block(tid) -> bool:
            lk = getattr(self.TS, '_active_in_thread_lock', None)
            try:
                held = bool(lk is not None and lk.locked())
            except Exception:  # noqa: BLE001
                held = False
            return held and bool(lines[tid]) and self.line_text(lines[tid][-1]).startswith('with ')

        stuck = {i: 0 for i in range(nthreads)}   # consecutive grants that found the thread blocked, with no other thread moving

        def progressed(tid):
            for j in stuck:
                stuck[j] = 0 if j != tid else stuck[j]
            stuck[tid] = 0

        def grant(tid):
            nonlocal blocked
            if done[tid]:
                return
            if stuck[tid] >= 3:
                # blocked three grants in a row while nobody else moved: only another thread's progress can unblock it, so
                # further grants are no-ops (the model sees them as such) — do not wait a full timeout for each
                eff.append(tid)
                blocked += 1
                return
            if not waiting[tid]:
                # inside a blocking call from an earlier grant: did it get through meanwhile?
                eff.append(tid)
                if arrived[tid].wait(0.02 if expect_block(tid) else self.timeout):
                    waiting[tid] = True
                    progressed(tid)
                else:
                    blocked += 1
                    stuck[tid] += 1
                return
            short = expect_block(tid)
            arrived[tid].clear()
            sem[tid].release()
            eff.append(tid)
            if arrived[tid].wait(0.02 if short else self.timeout):
                waiting[tid] = True
                progressed(tid)
            else:
                waiting[tid] = False
                blocked += 1
                stuck[tid] += 1

        for tid in schedule:
            grant(tid)
        # drain: let everything finish, round-robin
        stalled = 0
        for _ in range(400):
            if all(done.values()):
                break
            before = (sum(len(v) for v in lines.values()), sum(done.values()))
            for i in range(nthreads):
                grant(i)
            stalled = stalled + 1 if (sum(len(v) for v in lines.values()), sum(done.values())) == before else 0
            if stalled >= 6:
                break          # no thread moved for six rounds: a deadlock inside the code under test; reported as 'stuck'
        for i in range(nthreads):
            if not done[i]:
                result.setdefault(i, 'stuck')
        for t in ths:
            t.join(5.0)
        return dict(result), {k: list(v) for k, v in lines.items()}, blocked, eff
