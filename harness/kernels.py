"""Correspondence check for the kernels regenerated from the source by `harness/common/pykern.py`.

For every kernel group (= one source function, possibly one concrete class) the real function is *called* on generated
inputs; the values of the kernel's inputs (parameters and "cut" local variables) and of its target (return value, returned
record field, or local variable — read from the live frame with `sys.settrace`) are captured, the generated Lean definition
is evaluated by the driver on the same input bit patterns (op `kern.eval`), and the two results are compared element by
element (rtol 1e-9).  This validates the translator's reading of the source; the relation between the generated kernels and
the hand-written models is a theorem (`AeicProofs/Lemmas/KernelBridge.lean`), not a sample.

`check(ctx, groups)` is called from the property checks that own the kernels (C12, C19, C16, C01).
"""
from __future__ import annotations

import inspect
import math
import sys

import numpy as np

from .common import close, f2u, make_rng, u2f
from .common import pykern

RTOL = 1e-9


# --------------------------------------------------------------------------- capture
def _unwrap(fn):
    while hasattr(fn, '__wrapped__'):
        fn = fn.__wrapped__
    return getattr(fn, '__func__', fn)


def traced_call(fn, args, kwargs, watch):
    """Calls fn; returns (result, bindings) where bindings[name] = list of the successive values bound to `name`
    (copied at the moment a new object is bound) and bindings['$final'][name] = value at return."""
    code = _unwrap(fn).__code__
    hist: dict[str, list] = {w: [] for w in watch}
    last_id: dict[str, int] = {}
    final: dict[str, object] = {}

    def snap(frame, at_return=False):
        loc = frame.f_locals
        for w in watch:
            if w in loc:
                v = loc[w]
                if last_id.get(w) != id(v):
                    last_id[w] = id(v)
                    hist[w].append(np.array(v, dtype=float, copy=True) if _numeric(v) else v)
                if at_return:
                    final[w] = np.array(v, dtype=float, copy=True) if _numeric(v) else v

    def local(frame, event, arg):
        if event == 'line':
            snap(frame)
        elif event == 'return':
            snap(frame, True)
        return local

    def tracer(frame, event, arg):
        if event == 'call' and frame.f_code is code:
            return local
        return None

    callee = fn
    while hasattr(callee, '__wrapped__'):  # functools.cache: run the function body, not the memo
        callee = callee.__wrapped__
    old = sys.gettrace()
    sys.settrace(tracer)
    try:
        res = callee(*args, **kwargs)
    finally:
        sys.settrace(old)
    hist['$final'] = final
    return res, hist


def _numeric(v) -> bool:
    if isinstance(v, (bool, np.bool_)):
        return False
    if isinstance(v, (int, float, np.floating, np.integer)):
        return True
    return isinstance(v, np.ndarray) and v.dtype.kind in 'fiu'


def _chain(obj, key: str):
    for part in key.split('.'):
        obj = getattr(obj, part)
    return float(obj)


# --------------------------------------------------------------------------- scenario generators
def _ensure_config():
    from AEIC.config import Config

    try:
        Config.get()
    except Exception:
        from .common import aeic_setup

        aeic_setup()


class Impl:
    def __init__(self):
        import tomllib

        _ensure_config()

        from AEIC.BADA.aircraft_parameters import Bada3AircraftParameters
        from AEIC.BADA.model import Bada3FuelBurnModel
        from AEIC.config import config
        from AEIC.emissions.ei import hcco, nox, pmnvol, pmvol, sox
        from AEIC.emissions import utils as eutils
        from AEIC.performance.edb import EDBEntry
        from AEIC.performance.types import ThrustModeValues
        from AEIC.types import Fuel
        from AEIC.utils import standard_atmosphere as sa

        self.__dict__.update(locals())
        with open(config.file_location('fuels/conventional_jetA.toml'), 'rb') as f:
            self.fuel0 = Fuel.model_validate(tomllib.load(f))

    def tmv(self, xs):
        return self.ThrustModeValues(*[float(x) for x in xs])


def _alts(rng, n):
    h = rng.uniform(0.0, 25000.0, n)
    sp = [0.0, 11000.0, float(np.nextafter(11000.0, 1e9)), float(np.nextafter(11000.0, 0.0)), 25000.0, 3000.0]
    h[: min(n, len(sp))] = sp[: min(n, len(sp))]
    return h


def scen_atm(impl, rng, n, func):
    sa = impl.sa
    f = getattr(sa, func)
    if func in ('temperature_at_altitude_isa_bada4', 'pressure_at_altitude_isa_bada4', 'speed_of_sound_at_altitude'):
        yield f, (_alts(rng, n),), {}, None
    elif func == 'altitude_from_pressure_isa_bada4':
        p = 10 ** rng.uniform(math.log10(2000.0), math.log10(110000.0), n)
        pt = float(sa.pressure_at_altitude_isa_bada4(np.array(11000.0)))
        p[:3] = [pt, np.nextafter(pt, 0.0), np.nextafter(pt, 1e9)]
        yield f, (p,), {}, None
    elif func == 'calculate_speed_of_sound':
        yield f, (rng.uniform(180.0, 330.0, n),), {}, None
    elif func == 'calculate_air_density':
        yield f, (10 ** rng.uniform(3.3, 5.05, n), rng.uniform(180.0, 330.0, n)), {}, None


def scen_sox(impl, rng, n, func):
    for _ in range(max(4, n // 8)):
        fuel = impl.fuel0.model_copy(update={'fuel_sulfur_content_nom': float(rng.uniform(0.0, 3000.0)),
                                             'sulfate_yield_nom': float(rng.uniform(0.0, 1.0))})
        yield impl.sox.EI_SOx, (fuel,), {}, None


def scen_sls(impl, rng, n, func):
    for ne in (1, 2, 3, 4):
        h = _alts(rng, n)
        T = impl.sa.temperature_at_altitude_isa_bada4(h) + rng.uniform(-15, 15, n)
        P = np.array(impl.sa.pressure_at_altitude_isa_bada4(h))
        yield impl.eutils.get_SLS_equivalent_fuel_flow, (rng.uniform(0.0, 3.0, n), P, T, rng.uniform(0.0, 0.95, n)), {'n_eng': ne}, None


def _cal(rng):
    i = float(rng.uniform(0.03, 0.35))
    a = i * float(rng.uniform(2.2, 4.0))
    c = a * float(rng.uniform(1.8, 3.5))
    return [i, a, c, c * float(rng.uniform(1.05, 1.35))]


def _amb(impl, rng, n):
    h = _alts(rng, n)
    T = impl.sa.temperature_at_altitude_isa_bada4(h) + rng.uniform(-15.0, 15.0, n) * (rng.random(n) < 0.3)
    return h, np.array(T, dtype=float), np.array(impl.sa.pressure_at_altitude_isa_bada4(h), dtype=float)


def scen_nox(impl, rng, n, func):
    if func == 'NOx_speciation':
        yield impl.nox.NOx_speciation, (), {}, None
        return
    for _ in range(4):
        cal = _cal(rng)
        ei = sorted(10 ** rng.uniform(0.3, 1.8, 4))
        _, T, P = _amb(impl, rng, n)
        ff = rng.uniform(0.0, 1.3 * cal[3], n)
        ff[:2] = [0.0, -0.1]
        yield impl.nox.BFFM2_EINOx, (ff, impl.tmv(ei), impl.tmv(cal), T, P), {}, None


def scen_hcco(impl, rng, n, func):
    for _ in range(4):
        cal = _cal(rng)
        ei = 10 ** rng.uniform(-1.0, 2.0, 4)
        _, T, P = _amb(impl, rng, n)
        yield impl.hcco.EI_HCCO, (rng.uniform(0.01, 1.3 * cal[3], n), impl.tmv(ei), impl.tmv(cal), T, P), {}, None


def scen_meem(impl, rng, n, func):
    nan = float('nan')
    z = impl.tmv([0.0] * 4)
    for k in range(6):
        m = max(8, n // 4)
        alt = np.cumsum(rng.choice([-1.0, 0.0, 1.0], m) * rng.uniform(0.0, 3500.0, m))
        alt = np.clip(alt - alt.min() + float(rng.uniform(0, 2000)), 0.0, 25000.0)
        T = np.array(impl.sa.temperature_at_altitude_isa_bada4(alt), dtype=float)
        P = np.array(impl.sa.pressure_at_altitude_isa_bada4(alt), dtype=float)
        edb = impl.EDBEntry(
            engine='verif-kern', uid=f'k{k}-{int(rng.integers(1 << 30))}', engine_type='MTF' if k % 2 else 'TF',
            BP_Ratio=float(rng.uniform(0.0, 12.0)), rated_thrust=100.0, fuel_flow=z, CO_EI_matrix=z, HC_EI_matrix=z,
            EI_NOx_matrix=z, SN_matrix=impl.tmv(rng.uniform(1.0, 40.0, 4)),
            nvPM_mass_matrix=impl.tmv(10 ** rng.uniform(-1, 2.5, 4) if k % 3 else -np.ones(4)),
            nvPM_num_matrix=impl.tmv(10 ** rng.uniform(13, 16, 4)), PR=impl.tmv([float(rng.uniform(5.0, 45.0))] * 4),
            EImass_max=float(10 ** rng.uniform(-1, 2.5)), EImass_max_thrust=nan, EInum_max=float(10 ** rng.uniform(13, 16)),
            EInum_max_thrust=nan)
        yield impl.pmnvol.PMnvol_MEEM, (edb, alt, T, P, rng.uniform(0.0, 0.95, m)), {}, None


def _bada_params(rng, engine):
    u = rng.uniform
    p = {'c_fcr': float(u(0.85, 1.1)), 'c_d0cr': float(u(0.015, 0.04)), 'c_d2cr': float(u(0.02, 0.06)),
         'S_ref': float(u(20.0, 500.0)), 'c_tc2': float(u(3.0e4, 7.0e4)), 'c_tc4': float(u(-10.0, 15.0)),
         'c_tc5': float(u(-0.003, 0.015)), 'c_tcr': float(u(0.8, 1.0)), 'c_tdes_low': float(u(0.02, 0.2)),
         'c_tdes_high': float(u(0.02, 0.2)), 'h_p_des': float(u(3000.0, 35000.0))}
    if engine == 'Jet':
        p.update(c_tc1=float(u(5e4, 6e5)), c_tc3=float(u(0.0, 1e-10)), c_f1=float(u(0.3, 1.2)), c_f2=float(u(300.0, 5000.0)))
    elif engine == 'Turboprop':
        p.update(c_tc1=float(u(1e6, 1.5e7)), c_tc3=float(u(0.0, 2000.0)), c_f1=float(u(0.3, 1.0)), c_f2=float(u(600.0, 3000.0)))
    else:
        p.update(c_tc1=float(u(3e3, 3e4)), c_tc3=float(u(0.0, 1e5)), c_f1=float(u(0.3, 3.0)), c_f2=float(u(300.0, 5000.0)))
    if rng.random() < 0.15:
        p['c_f1'] = 0.0
    return p


ENGINE_OF = {'Bada3JetEngineModel': 'Jet', 'Bada3TurbopropEngineModel': 'Turboprop', 'Bada3PistonEngineModel': 'Piston'}


def scen_bada(impl, rng, n, func, cls=None, engine=None):
    cname, mname = func.split('.')
    engines = [ENGINE_OF[cls or engine]] if (cls or engine) in ENGINE_OF else (
        [ENGINE_OF[cname]] if cname in ENGINE_OF else ['Jet', 'Turboprop', 'Piston'])
    for eng in engines:
        for _ in range(3):
            P = _bada_params(rng, eng)
            ap = impl.Bada3AircraftParameters()
            ap.assign_parameters_fromdict(dict(P, engine_type=eng, ac_type='GEN'))
            fb = impl.Bada3FuelBurnModel(ap)
            obj = fb if cname == 'Bada3FuelBurnModel' else fb.engine_model
            alt = rng.uniform(0.0, 14000.0, n)
            alt[:3] = [0.0, 11000.0, 20000.0]
            hsw = P['h_p_des'] * 0.3048
            if hsw < 24000.0:
                alt[3] = hsw
            T = np.array(impl.sa.temperature_at_altitude_isa_bada4(alt), dtype=float) + rng.uniform(-25.0, 60.0, n)
            v = rng.uniform(60.0, 260.0, n)
            mass = P['S_ref'] * rng.uniform(250.0, 650.0, n)
            rocd = rng.uniform(-25.0, 25.0, n) * (rng.random(n) > 0.2)
            acc = rng.uniform(-0.6, 0.6, n) * (rng.random(n) > 0.4)
            cr = rng.random(n) < 0.4
            gs = np.maximum(v + rng.uniform(-50.0, 50.0, n), 5.0)
            thrust = rng.uniform(-2e4, 4e5, n)
            pool = {'altitude': alt, 'v_tas': v, 'temperature': T, 'mass': mass, 'rocd': rocd, 'acceleration': acc,
                    'in_cruise': cr, 'groundspeed': gs, 'thrust': thrust, 'rho': rng.uniform(0.05, 1.3, n),
                    'cl': rng.uniform(0.0, 1.5, n), 'cd': rng.uniform(0.01, 0.2, n), 'drag': rng.uniform(1e3, 3e5, n)}
            meth = getattr(obj, mname)
            names = [p for p in inspect.signature(meth).parameters if p not in ('args', 'kwargs')]
            yield meth, tuple(pool[p] for p in names), {}, obj


GROUP_SCEN = {
    'utils/standard_atmosphere.py': scen_atm, 'emissions/ei/sox.py': scen_sox, 'emissions/utils.py': scen_sls,
    'emissions/ei/nox.py': scen_nox, 'emissions/ei/hcco.py': scen_hcco, 'emissions/ei/pmnvol.py': scen_meem,
    'BADA/model.py': scen_bada,
}


# --------------------------------------------------------------------------- check
def check(ctx, files: set[str] | None = None, n: int | None = None) -> dict:
    """Translate, build (done by ctx.proofs()), run the real functions and the generated kernels, compare.
    `files`: restrict to kernels whose source file is in this set. Returns a summary (also stored in ctx.extra)."""
    n = n or ctx.scale(48, 400)
    g, errors = pykern.translate_all()
    summary = {'kernels': 0, 'points': 0, 'mismatches': 0, 'untranslatable': {}, 'per_kernel': {}}
    kernels = [k for k in pykern.KERNELS if files is None or k.file in files]
    for k in kernels:
        if k.name in errors:
            summary['untranslatable'][k.name] = errors[k.name]
            ctx.broken_obligation(f'kernel translator: {errors[k.name]}')
    summary['stale'] = sorted(n for n in pykern.LAST_STALE if any(k.name == n for k in kernels))
    present = ctx.driver.outs([{'op': 'kern.names'}])[0]['present'] if ctx.driver.available() else []
    impl = Impl()
    rng = make_rng(ctx.pid, ctx.seed, 'kernels')
    groups: dict[tuple, list] = {}
    for k in kernels:
        if k.name in errors:
            continue
        if k.name not in present:
            ctx.broken_obligation(f'kernel {k.name} missing from the built driver (stale build?)')
            continue
        groups.setdefault((k.file, k.func, k.cls, k.engine), []).append(k)
    for (file, func, cls, engine), ks in groups.items():
        scen = GROUP_SCEN[file]
        kw = {'cls': cls, 'engine': engine} if file == 'BADA/model.py' else {}
        try:
            calls = list(scen(impl, rng, n, func, **kw))
        except Exception as e:  # the real API changed under the scenario generator
            ctx.diverge('kernel scenario', {'file': file, 'func': func}, f'{type(e).__name__}: {e}')
            continue
        for fn, args, kwargs, selfobj in calls:
            watch = set()
            for k in ks:
                watch |= {(i if isinstance(i, str) else i[0]) for i in k.inputs}
                if not k.target.startswith('return'):
                    watch.add(k.target.split('@')[0])
            try:
                res, hist = traced_call(fn, args, kwargs, watch)
            except Exception as e:
                ctx.diverge('kernel scenario call', {'file': file, 'func': func}, f'{type(e).__name__}: {e}')
                continue
            bound = inspect.signature(_unwrap(fn)).bind(*(((selfobj,) if selfobj is not None else ()) + tuple(args)), **kwargs)
            bound.apply_defaults()
            for k in ks:
                _compare(ctx, g, k, res, hist, bound.arguments, selfobj, summary)
    ctx.extra.setdefault('kernels', {}).update(summary)
    ctx.count('kernel_points', summary['points'])
    return summary


def _target_value(k, res, hist):
    t = k.target
    if t == 'return':
        return res
    if t.startswith('return.'):
        return getattr(res, t.split('.', 1)[1])
    if t.startswith('return['):
        return res[int(t[7:-1])]
    if '@' in t:
        name, idx = t.split('@')
        return hist[name][int(idx) - 1]
    return hist['$final'][t]


def _compare(ctx, g, k, res, hist, bound, selfobj, summary):
    try:
        out = np.atleast_1d(np.array(_target_value(k, res, hist), dtype=float))
    except Exception as e:
        ctx.diverge(f'kernel {k.name}', {'kernel': k.name}, f'target {k.target} not observable: {type(e).__name__}: {e}')
        return
    ins = []
    size = out.size
    for i in k.inputs:
        name, kind = (i, 'real') if isinstance(i, str) else i
        if name in hist['$final']:
            v = hist['$final'][name]
        elif name in bound:
            v = bound[name]
        else:
            ctx.diverge(f'kernel {k.name}', {'kernel': k.name}, f'input {name} not observable')
            return
        a = np.atleast_1d(np.array(v, dtype=bool if kind == 'bool' else float))
        size = max(size, a.size)
        ins.append((kind, a))
    attrs = {}
    try:
        for key in g.attr_keys.get(k.name, []):
            root = key.split('.')[0]
            attrs[key] = f2u(_chain(selfobj, key) if (selfobj is not None and hasattr(selfobj, root)) else _chain(bound[root], key.split('.', 1)[1]))
    except Exception as e:
        ctx.diverge(f'kernel {k.name}', {'kernel': k.name}, f'attribute not observable: {type(e).__name__}: {e}')
        return

    def at(a, j):
        return a[j] if a.size > 1 else a[0]

    pts = []
    for j in range(size):
        pts.append({'x': [f2u(float(at(a, j))) for kind, a in ins if kind != 'bool'],
                    'b': [bool(at(a, j)) for kind, a in ins if kind == 'bool']})
    got = ctx.driver.outs([{'op': 'kern.eval', 'name': k.name, 'attrs': attrs, 'pts': pts}])[0]
    summary['kernels'] += 0 if k.name in summary['per_kernel'] else 1
    pk = summary['per_kernel'].setdefault(k.name, {'points': 0, 'mismatches': 0})
    for j in range(size):
        want = float(at(out, j))
        have = u2f(got[j])
        pk['points'] += 1
        summary['points'] += 1
        ctx.evaluations += 1
        if not close(want, have, RTOL, 1e-300):
            pk['mismatches'] += 1
            summary['mismatches'] += 1
            if pk['mismatches'] <= 3:
                ctx.diverge(f'kernel {k.name} (translated from {k.file}:{k.func}) vs implementation',
                            {'kernel': k.name, 'inputs': {(i if isinstance(i, str) else i[0]): float(at(a, j)) for i, (_, a) in zip(k.inputs, ins)},
                             'attrs': {kk: u2f(v) for kk, v in attrs.items()}},
                            f'implementation {want!r} vs translated kernel {have!r}')


# =========================================================================== symbolic kernels (pykern.Sym)
def _enum_ns():
    from AEIC.performance.types import ThrustMode
    from AEIC.types import AircraftClass, Species

    return {'Species': Species, 'ThrustMode': ThrustMode, 'AircraftClass': AircraftClass}


def _resolve(root_ns: dict, key: str):
    """'apu.fuel_kg_per_s', 'lto_indices[Species.SO4][ThrustMode.IDLE]', 'self.ac_performance.maximum_payload' -> value"""
    ns = dict(_enum_ns())
    ns.update(root_ns)
    return eval(key, {'__builtins__': {}}, ns)  # keys are generated by the translator from attribute / constant-subscript chains


def _walk(obj, path: list[str]):
    ens = _enum_ns()
    for p in path:
        if p.isdigit():
            obj = obj[int(p)]
        elif '.' in p and p.split('.')[0] in ens:
            obj = obj[getattr(ens[p.split('.')[0]], p.split('.')[1])]
        else:
            obj = getattr(obj, p)
    return obj


def _f(v) -> float:
    a = np.asarray(v)
    if a.size == 1 and a.dtype.kind in 'USO':
        # a ThrustMode member (or its string value): the index of the member in definition order, as the `nat` kernels report it
        from AEIC.performance.types import ThrustMode

        x = a.reshape(-1)[0]
        vals = [m.value for m in ThrustMode]
        return float(vals.index(getattr(x, 'value', str(x))))
    return float(a.reshape(-1)[0]) if a.size == 1 else float(v)


def sym_scenarios(impl, rng, spec_group):
    """Yields dicts: call (callable), args, kwargs, self ('result' | object | None), ns (names for attribute keys)."""
    file, func, consts = spec_group
    ens = _enum_ns()
    if file == 'emissions/gse.py':
        from AEIC.emissions.gse import get_GSE_emissions

        cls = eval(dict(consts)['aircraft_class'], {}, ens)
        for _ in range(4):
            fuel = impl.fuel0.model_copy(update={'EI_CO2': float(rng.uniform(2800, 3300)), 'EI_H2O': float(rng.uniform(1100, 1400))})
            yield {'call': get_GSE_emissions, 'args': (cls, fuel), 'kwargs': {}}
    elif file == 'emissions/apu.py':
        from AEIC.emissions.apu import get_APU_emissions
        from AEIC.performance.apu import APU
        from AEIC.types import Species, SpeciesValues

        for i in range(24):
            flow = 0.0 if i % 6 == 0 else float(rng.uniform(0.005, 0.08))
            apu = APU(name='k', defra='d', fuel_kg_per_s=flow, NOx_g_per_kg=float(rng.uniform(2, 12)),
                      CO_g_per_kg=float(rng.uniform(0.5, 30)), HC_g_per_kg=float(rng.uniform(0.05, 5)),
                      PM10_g_per_kg=float(rng.uniform(0.0, 0.8)))
            lto = {}
            if i % 4 != 1:
                lto[Species.SO2] = impl.tmv(rng.uniform(0.5, 1.5, 4))
            if i % 4 != 2:
                lto[Species.SO4] = impl.tmv(rng.uniform(0.01, 1.2, 4))  # sometimes above PM10: the max(..., 0) branch
            lto[Species.CO2] = impl.tmv([3155.0] * 4)
            yield {'call': get_APU_emissions, 'args': (SpeciesValues(lto), apu, impl.fuel0),
                   'kwargs': {'apu_time': float(rng.choice([900.0, 600.0, 0.0, 1234.5]))}}
    elif file == 'trajectories/builders/legacy.py':
        from harness import c0217_lib as L
        from AEIC.trajectories.builders.legacy import LegacyContext

        for i in range(40):
            case = L.gen_case(rng)
            case['perf'] = {'kind': 'sample'} if i % 2 else case['perf']
            if i % 5 == 0:
                case['orig'][2] = float(rng.uniform(9000, 14000))   # start altitude at / above the ceiling: the clamps
            if i % 7 == 0:
                case['dest'][2] = float(rng.uniform(9000, 14000))
            try:
                pm = L.perf_model(case['perf'])
                builder = L.make_builder(case)
                mission = L.make_mission(case)
            except Exception:
                continue
            if func == 'LegacyContext.__init__':
                yield {'call': LegacyContext, 'args': (builder, pm, mission, None), 'kwargs': {}, 'self': 'result',
                       'ns': {'builder': builder, 'ac_performance': pm, 'mission': mission}}
            else:
                try:
                    builder.ctx = LegacyContext(builder, pm, mission, None)
                except Exception:
                    continue
                yield {'call': builder.calc_starting_mass, 'args': (), 'kwargs': {}, 'self': builder, 'cleanup': lambda b=builder: delattr(b, 'ctx')}
    elif file == 'emissions/ei/pmvol.py':
        from AEIC.performance.types import ThrustMode, ThrustModeArray

        if func == 'EI_PMvol_FuelFlow':
            for m in ThrustMode:
                yield {'call': impl.pmvol.EI_PMvol_FuelFlow, 'args': (np.array([float(rng.uniform(0.1, 2.0))]), ThrustModeArray(np.array([m.value]))),
                       'kwargs': {}, 'ns': {'thrustMode': ThrustModeArray(np.array([m.value])), 'ThrustMode': ThrustMode}}
        else:
            for t in [7.0, 30.0, 85.0, 100.0, 0.0, 3.0, 120.0] + [float(x) for x in rng.uniform(0.0, 110.0, 40)]:
                yield {'call': impl.pmvol.EI_PMvol_FOA3, 'args': (np.array([t]), np.array([float(rng.uniform(0.0, 30.0))])), 'kwargs': {}}
    elif file == 'emissions/utils.py' and func == 'get_thrust_cat_cruise':
        for i in range(80):
            cal = _cal(rng)
            if i % 5 == 0:
                cal = [cal[2], cal[1], cal[0], cal[3]]       # non-monotone calibration flows
            ff = float(rng.choice([rng.uniform(0.0, 1.3 * cal[3]), (cal[0] + cal[1]) / 2.0, (cal[1] + cal[2]) / 2.0, cal[0], cal[2]]))
            yield {'call': impl.eutils.get_thrust_cat_cruise, 'args': (np.array([ff]), impl.tmv(cal)), 'kwargs': {}}
    elif file == 'emissions/ei/pmnvol.py' and func == 'calculate_PMnvolEI_scope11':
        et = eval(dict(consts)['engine_type'])
        for i in range(24):
            sn = [float(x) for x in rng.uniform(0.5, 60.0, 4)]
            if i % 4 == 0:
                sn[int(rng.integers(0, 4))] = float(rng.choice([-1.0, 0.0]))     # invalid smoke numbers: that mode is skipped
            yield {'call': impl.pmnvol.calculate_PMnvolEI_scope11, 'args': (impl.tmv(sn), et, float(rng.uniform(0.5, 12.0))), 'kwargs': {}}
    elif file == 'emissions/ei/hcco.py':
        # one evaluation point per call (the kernel reads the array code for one element); calibration sets that reach every
        # branch of the clamping rules: ordinary falling HC/CO, equal idle / approach flows (zero slope), rising EI (positive
        # slope), an intercept beyond the climb-out flow, an intercept below the approach flow
        for i in range(160):
            cal = _cal(rng)
            kind = i % 8
            ei = list(10 ** rng.uniform(-1.0, 2.0, 4))
            if kind == 0:
                ei = sorted(ei, reverse=True)
            elif kind == 1:
                cal[1] = cal[0]                          # zero slope_den
            elif kind == 2:
                ei = sorted(ei)                          # rising: rule (c)
            elif kind == 3:
                ei = [ei[0], ei[0] * 0.99, ei[0] * 1e-4, ei[0] * 1e-4]   # shallow slanted line, far intercept: rule (a)
            elif kind == 4:
                ei = [ei[0], ei[0] * 1e-3, ei[0] * 0.5, ei[0] * 0.5]     # steep line meeting a high level early: rule (b)
            elif kind == 5:
                ei = [ei[0], ei[0], ei[2], ei[3]]        # equal idle / approach EI: zero slope
            ff = float(rng.choice([rng.uniform(0.0, 1.3 * cal[3]), 0.0, -0.05, cal[0] * 0.5, cal[0], cal[1], cal[2], cal[3]]))
            _, T, P = _amb(impl, rng, 1)
            yield {'call': impl.hcco.EI_HCCO, 'args': (np.array([ff]), impl.tmv(ei), impl.tmv(cal), T, P), 'kwargs': {}}
    elif file == 'weather.py':
        import tempfile

        import pandas as pd
        import xarray as xr

        from AEIC.trajectories.ground_track import GroundTrack
        from AEIC.types import Location
        from AEIC.weather import Weather

        d = tempfile.mkdtemp(prefix='kern_wx_')
        try:
            ps = np.array([1000.0, 850.0, 500.0, 250.0, 100.0])
            lats, lons = np.linspace(30.0, 40.0, 5), np.linspace(-80.0, -70.0, 6)
            shape = (len(ps), len(lats), len(lons))
            ds = xr.Dataset({'u': (('pressure_level', 'latitude', 'longitude'), rng.uniform(-60, 60, shape)),
                             'v': (('pressure_level', 'latitude', 'longitude'), rng.uniform(-60, 60, shape)),
                             't': (('pressure_level', 'latitude', 'longitude'), rng.uniform(200, 300, shape))},
                            coords={'pressure_level': ps, 'latitude': lats, 'longitude': lons})
            ds.to_netcdf(f'{d}/20240901.nc')
            w = Weather(d)
            t = pd.Timestamp('2024-09-01T12:00:00')
            for i in range(60):
                pt = GroundTrack.Point(Location(float(rng.uniform(-79.9, -70.1)), float(rng.uniform(30.1, 39.9))),
                                       float(rng.uniform(0, 360)))
                az = None if i % 2 else float(rng.choice([0.0, 90.0, 180.0, 270.0, float(rng.uniform(0, 360))]))
                yield {'call': w.get_ground_speed, 'args': (t, pt, float(rng.uniform(200.0, 15000.0)), float(rng.uniform(0.0, 280.0))),
                       'kwargs': {'azimuth': az}, 'self': w}
        finally:
            import shutil

            shutil.rmtree(d, ignore_errors=True)


def check_sym(ctx, files: set[str] | None = None) -> dict:
    g, errors = pykern.translate_all()
    specs = [k for k in pykern.SYM_KERNELS if not k.loop and (files is None or k.file in files)]
    summary = ctx.extra.setdefault('kernels', {})
    sm = summary.setdefault('symbolic', {'kernels': 0, 'points': 0, 'mismatches': 0, 'untranslatable': {}})
    for k in specs:
        if k.name in errors:
            sm['untranslatable'][k.name] = errors[k.name]
            ctx.broken_obligation(f'kernel translator: {errors[k.name]}')
    sm['stale'] = sorted(n for n in pykern.LAST_STALE if any(k.name == n for k in specs))
    present = set(ctx.driver.outs([{'op': 'kern.names'}])[0]['present']) if ctx.driver.available() else set()
    impl = Impl()
    rng = make_rng(ctx.pid, ctx.seed, 'sym-kernels')
    groups: dict[tuple, list] = {}
    for k in specs:
        if k.name in errors:
            continue
        if k.name not in present:
            ctx.broken_obligation(f'kernel {k.name} missing from the built driver (stale build?)')
            continue
        groups.setdefault((k.file, k.func, tuple(sorted(k.consts.items()))), []).append(k)
    seen = set()
    for grp, ks in groups.items():
        try:
            scen = sym_scenarios(impl, rng, grp)
            for sc in scen:
                _run_sym(ctx, g, ks, sc, sm, seen)
        except Exception as e:  # the real API changed under the scenario generator
            ctx.diverge('kernel scenario', {'group': list(grp[:2])}, f'{type(e).__name__}: {e}')
        _flush_sym(ctx, sm, seen)
    sm['kernels'] = len(seen)
    ctx.count('sym_kernel_points', sm['points'])
    return sm


def _run_sym(ctx, g, ks, sc, sm, seen):
    fn = sc['call']
    watch = set()
    for k in ks:
        watch |= set(k.cut) | set(k.cut_obj) | {(i if isinstance(i, str) else i[0]) for i in k.inputs}
        head = k.target.split('/')[0]
        if head != 'return' and not head.startswith('self.'):
            watch.add(head)
    target_fn = fn
    if isinstance(fn, type):
        target_fn = fn.__init__
    try:
        res, hist = traced_call_code(_unwrap(target_fn).__code__, fn, sc['args'], sc['kwargs'], watch)
    except Exception as e:
        # the real function refused this input (a guard): nothing to compare
        ctx.count('sym_scenario_refused:' + type(e).__name__)
        if 'cleanup' in sc:
            sc['cleanup']()
        return
    selfobj = res if sc.get('self') == 'result' else sc.get('self')
    if isinstance(fn, type):
        bound = inspect.signature(fn.__init__).bind(selfobj, *sc['args'], **sc['kwargs'])
    else:
        bound = inspect.signature(fn).bind(*sc['args'], **sc['kwargs'])
    bound.apply_defaults()
    ns = dict(bound.arguments)
    ns.update(sc.get('ns', {}))
    if selfobj is not None:
        ns['self'] = selfobj
    for w, v in hist['$final'].items():
        ns.setdefault(w, v)
    for k in ks:
        try:
            parts = k.target.split('/')
            if parts[0] == 'return':
                want = _f(_walk(res, parts[1:]))
            elif parts[0].startswith('self.'):
                want = _f(_walk(getattr(selfobj, parts[0][5:]), parts[1:]))
            else:
                want = _f(_walk(hist['$final'][parts[0]], parts[1:]))
        except Exception as e:
            if k.name in pykern.LAST_STALE:
                ctx.count('source_tie_stale_unobservable:' + k.name)
                continue
            ctx.diverge(f'kernel {k.name}', {'kernel': k.name}, f'target {k.target} not observable: {type(e).__name__}: {e}')
            continue
        try:
            attrs = {key: f2u(_f(_resolve(ns, key))) for key in g.attr_keys.get(k.name, []) if _observable(ns, key)}
            xs, bs = [], []
            for i in k.inputs:
                name, kind = (i, 'real') if isinstance(i, str) else i
                (bs if kind == 'bool' else xs).append(bool(ns[name]) if kind == 'bool' else f2u(_f(ns[name])))
            for text, name in k.cond_inputs.items():
                bs.append(bool(np.all(_resolve(ns, text))))
        except Exception as e:
            if k.name in pykern.LAST_STALE:
                ctx.count('source_tie_stale_unobservable:' + k.name)
                continue
            ctx.diverge(f'kernel {k.name}', {'kernel': k.name}, f'inputs not observable: {type(e).__name__}: {e}')
            continue
        if pykern.is_vector_kernel(k, g):       # (kernels with a length / array signature live in the vector dispatcher)
            op = {'op': 'kern.evalv', 'name': k.name, 'attrs': attrs, 'vattrs': {}, 'pts': [{'x': xs, 'b': bs, 'v': [], 'n': []}]}
        else:
            op = {'op': 'kern.eval', 'name': k.name, 'attrs': attrs, 'pts': [{'x': xs, 'b': bs}]}
        _SYM_QUEUE.append((k, op, want, attrs, xs, bs))
    if 'cleanup' in sc:
        sc['cleanup']()


_SYM_QUEUE: list = []


def _float_tie(ctx, op, want) -> bool:
    """does the kernel give `want` when one of its real inputs moves by one unit in the last place?"""
    pt = op['pts'][0]
    pts = []
    for i, u in enumerate(pt['x']):
        x = u2f(u)
        for y in (np.nextafter(x, np.inf), np.nextafter(x, -np.inf)):
            q = dict(pt)
            q['x'] = list(pt['x'])
            q['x'][i] = f2u(float(y))
            pts.append(q)
    if not pts:
        return False
    got = ctx.driver.outs([dict(op, pts=pts)])[0]
    vals = [u2f(t[0]) if isinstance(t, list) else u2f(t) for t in got]
    return any(close(want, v, RTOL, 1e-300) for v in vals)


def _flush_sym(ctx, sm, seen):
    if not _SYM_QUEUE:
        return
    outs = ctx.driver.outs([q[1] for q in _SYM_QUEUE])
    for (k, _op, want, attrs, xs, bs), got in zip(_SYM_QUEUE, outs):
        have = u2f(got[0][0]) if isinstance(got[0], list) else u2f(got[0])
        seen.add(k.name)
        sm['points'] += 1
        ctx.evaluations += 1
        if not close(want, have, RTOL, 1e-300) and k.cut and xs and _float_tie(ctx, _op, want):
            # a kernel cut out of the middle of a function receives intermediate values the implementation computed with numpy's
            # transcendental functions and recomputes others with libm's: at a discontinuity (a branch on `log10(x) >= c` with
            # `x` exactly on the boundary) the two may differ in the last bit and select different branches. A mismatch that
            # disappears when ONE real input moves by one unit in the last place is such a tie, not a divergence.
            sm['float_ties'] = sm.get('float_ties', 0) + 1
            ctx.count('kernel_float_tie:' + k.name)
        elif not close(want, have, RTOL, 1e-300):
            sm['mismatches'] += 1
            if sm['mismatches'] <= 5:
                ctx.diverge(f'kernel {k.name} (symbolic translation of {k.file}:{k.func}, {k.target}) vs implementation',
                            {'kernel': k.name, 'attrs': {kk: u2f(v) for kk, v in attrs.items()}, 'x': [u2f(x) for x in xs], 'b': bs},
                            f'implementation {want!r} vs translated kernel {have!r}')
    _SYM_QUEUE.clear()


def _observable(ns, key) -> bool:
    """attribute keys a kernel mentions but that do not exist on this input (e.g. a species missing from a mapping)
    are read only under a condition that is false: leave them out (the kernel reads NaN there, unused)."""
    try:
        _resolve(ns, key)
        return True
    except Exception:
        return False


def traced_call_code(code, fn, args, kwargs, watch):
    """like traced_call, for an explicit code object (constructors, bound methods)"""
    hist: dict[str, list] = {w: [] for w in watch}
    final: dict[str, object] = {}

    def local(frame, event, arg):
        if event == 'return':
            for w in watch:
                if w in frame.f_locals:
                    v = frame.f_locals[w]
                    final[w] = np.array(v, dtype=float, copy=True) if _numeric(v) else v
        return local

    def tracer(frame, event, arg):
        if event == 'call' and frame.f_code is code:
            return local
        return None

    old = sys.gettrace()
    sys.settrace(tracer)
    try:
        res = fn(*args, **kwargs)
    finally:
        sys.settrace(old)
    hist['$final'] = final
    return res, hist


# --------------------------------------------------------------------------- loop-body kernels (SymKernel.loop)
def _loop_first_line(k) -> tuple[int, int]:
    """(first line of the function, first line of the body of its first top-level `for … in range(…)`), from the source AST"""
    import ast

    mod = pykern.Module.get(k.file)
    cname, mname = k.func.split('.')
    fn = mod.method(k.cls or cname, mname)[1]
    for st in fn.body:
        if k.loop_over == 'while':
            if isinstance(st, ast.While):
                return fn.lineno, st.body[0].lineno
        elif isinstance(st, ast.For) and isinstance(st.iter, ast.Call) and getattr(st.iter.func, 'id', None) == 'range':
            return fn.lineno, st.body[0].lineno
    raise LookupError(f'{k.func}: no such loop')


def _snap_obj(o):
    """numeric attributes of a point / performance record, copied"""
    out = {}
    names = getattr(o, '__dataclass_fields__', None) or getattr(o, '__dict__', None) or {}
    for n in list(names):
        try:
            v = getattr(o, n)
        except Exception:
            continue
        if _numeric(v) and np.ndim(v) == 0:
            out[n] = float(v)
    # containers' points expose their fields through __getattr__: ask for the known trajectory fields too
    for n in ('fuel_flow', 'aircraft_mass', 'fuel_mass', 'ground_distance', 'altitude', 'flight_level', 'rate_of_climb',
              'flight_time', 'latitude', 'longitude', 'azimuth', 'heading', 'true_airspeed', 'ground_speed'):
        if n not in out:
            try:
                v = getattr(o, n)
                if v is not None and _numeric(v) and np.ndim(v) == 0:
                    out[n] = float(v)
            except Exception:
                pass
    return out


def trace_loop(code, body_line: int, run, objs=('pt', 'perf', 'perf_end'), self_attrs=()):
    """Runs `run()`; for every activation of `code` records the state at each arrival at `body_line` (= the start of one loop
    iteration): numeric locals and the numeric attributes of the objects named in `objs`, plus `self`. Returns a list of
    activations, each a list of snapshots."""
    acts: list[list[dict]] = []

    def local_for(act):
        def local(frame, event, arg):
            if event == 'line' and frame.f_lineno == body_line:
                loc = frame.f_locals
                s = {'$locals': {n: float(v) for n, v in loc.items() if _numeric(v) and np.ndim(v) == 0}, '$self': loc.get('self'),
                     '$selfattrs': {}}
                for a in self_attrs:
                    try:
                        s['$selfattrs'][a] = float(_chain(loc.get('self'), a))
                    except Exception:  # noqa: BLE001
                        pass
                for o in objs:
                    if o in loc and loc[o] is not None:
                        s[o] = _snap_obj(loc[o])
                act.append(s)
            return local
        return local

    def tracer(frame, event, arg):
        if event == 'call' and frame.f_code is code:
            act: list[dict] = []
            acts.append(act)
            return local_for(act)
        return None

    old = sys.gettrace()
    sys.settrace(tracer)
    try:
        run()
    finally:
        sys.settrace(old)
    return acts


def check_loops(ctx, files: set[str] | None = None, flights: int = 6) -> dict:
    """Validates the loop-body kernels: real flights are flown, the state of the running point, the performance records and the
    locals are captured at the start of every iteration of the traced loop, and for every pair of consecutive iterations the
    generated kernel (state before, inputs of that iteration) is compared with the state after."""
    from harness import c0217_lib as L

    g, errors = pykern.translate_all()
    specs = [k for k in pykern.SYM_KERNELS if k.loop and (files is None or k.file in files)]
    summary = ctx.extra.setdefault('kernels', {})
    sm = summary.setdefault('loop_bodies', {'kernels': 0, 'points': 0, 'mismatches': 0, 'untranslatable': {}})
    sm['stale'] = sorted(n for n in pykern.LAST_STALE if any(k.name == n for k in specs))
    for k in specs:
        if k.name in errors:
            sm['untranslatable'][k.name] = errors[k.name]
            ctx.broken_obligation(f'kernel translator: {errors[k.name]}')
    present = set(ctx.driver.outs([{'op': 'kern.names'}])[0]['present']) if ctx.driver.available() else set()
    groups: dict[str, list] = {}
    for k in specs:
        if k.name in errors:
            continue
        if k.name not in present:
            ctx.broken_obligation(f'kernel {k.name} missing from the built driver (stale build?)')
            continue
        groups.setdefault(k.func, []).append(k)
    _ensure_config()
    rng = make_rng(ctx.pid, ctx.seed, 'loop-kernels')
    import AEIC.trajectories.builders.legacy as legacy_mod

    seen = set()
    for func, ks in groups.items():
        try:
            _, body_line = _loop_first_line(ks[0])
            code = _unwrap(getattr(legacy_mod.LegacyBuilder, func.split('.')[1])).__code__
        except Exception as e:
            ctx.diverge('kernel scenario', {'group': func}, f'{type(e).__name__}: {e}')
            continue
        is_while = ks[0].loop_over == 'while'
        self_attrs = sorted({key[5:] for k in ks for key in g.attr_keys.get(k.name, []) if key.startswith('self.')}
                            | {k.target[5:] for k in ks if k.target.startswith('self.')})
        done = 0
        for _ in range(flights * 6):
            if done >= flights:
                break
            case = L.gen_case(rng, n_choices=[3, 5, 7, 12])
            case['iterate'] = is_while
            if is_while:
                case['max_iters'], case['tol'] = 8, 1e-3
            try:
                holder = {}
                acts = trace_loop(code, body_line, lambda: holder.update(res=L.run_flight(case)), self_attrs=self_attrs)
            except Exception as e:  # noqa: BLE001
                ctx.count('loop_scenario_error:' + type(e).__name__)
                continue
            if not holder.get('res', {}).get('ok') and not is_while:
                ctx.count('loop_scenario_refused')
                continue
            if is_while and not any(len(a) >= 2 for a in acts):
                continue                                 # converged at once (or refused before a second pass): nothing to compare
            done += 1
            for act in acts:
                for before, after in zip(act, act[1:]):
                    _compare_iteration(ctx, g, ks, before, after, sm, seen)
    _flush_loops(ctx, sm, seen)
    sm['kernels'] = len(seen)
    ctx.count('loop_kernel_points', sm['points'])
    return sm


def _compare_iteration(ctx, g, ks, before, after, sm, seen):
    selfobj = after.get('$self')
    for k in ks:
        # values an iteration reads: the running point as it was at the start of the iteration; the records and locals the
        # iteration itself computed are still bound when the next iteration starts
        def lookup(key):
            root, _, rest = key.partition('.')
            if root == 'pt':
                return before['pt'][rest]
            if root == 'self':
                if rest in before.get('$selfattrs', {}):
                    return before['$selfattrs'][rest]
                return _chain(selfobj, rest)
            if root in after and isinstance(after[root], dict):
                return after[root][rest]
            raise KeyError(key)
        try:
            attrs = {key: f2u(float(lookup(key))) for key in g.attr_keys.get(k.name, [])}
            xs = []
            cut_attr_inv = {v: kk for kk, v in k.cut_attr.items()}
            for i in k.inputs:
                name = i if isinstance(i, str) else i[0]
                if name in cut_attr_inv:                       # e.g. ground_speed = pt.ground_speed as this iteration set it
                    root, _, rest = cut_attr_inv[name].partition('.')
                    xs.append(f2u(float(after[root][rest])))
                elif name in before['$locals'] and (name in ('i',) or k.loop_over == 'while'):
                    xs.append(f2u(before['$locals'][name]))      # the loop variable / what a `while` pass knows when it starts
                else:
                    xs.append(f2u(after['$locals'][name]))
            tgt = k.target
            if tgt.startswith('self.'):
                want = float(after['$selfattrs'][tgt[5:]])
            elif '.' in tgt:
                root, _, rest = tgt.partition('.')
                want = float(after[root][rest])
            else:
                want = float(after['$locals'][tgt])
        except Exception as e:  # noqa: BLE001
            if k.name in pykern.LAST_STALE:
                # the kernel is served from its last good translation because the source left the translatable subset (e.g. a
                # local was renamed): its observation points are names of the OLD source. A limitation of the translator is not
                # evidence about the code (DESIGN 9.6): recorded, no alarm; the kernels of the observable state still run.
                ctx.count('source_tie_stale_unobservable:' + k.name)
                continue
            ctx.diverge(f'kernel {k.name}', {'kernel': k.name}, f'loop state not observable: {type(e).__name__}: {e}')
            continue
        _LOOP_QUEUE.append((k, {'op': 'kern.eval', 'name': k.name, 'attrs': attrs, 'pts': [{'x': xs, 'b': []}]}, want, attrs, xs))


_LOOP_QUEUE: list = []


def _flush_loops(ctx, sm, seen):
    if not _LOOP_QUEUE:
        return
    outs = ctx.driver.outs([q[1] for q in _LOOP_QUEUE])
    for (k, _op, want, attrs, xs), got in zip(_LOOP_QUEUE, outs):
        have = u2f(got[0])
        seen.add(k.name)
        sm['points'] += 1
        ctx.evaluations += 1
        if not close(want, have, RTOL, 1e-300):
            sm['mismatches'] += 1
            if sm['mismatches'] <= 5:
                ctx.diverge(f'kernel {k.name} (one iteration of the loop of {k.file}:{k.func}, {k.target}) vs implementation',
                            {'kernel': k.name, 'attrs': {kk: u2f(v) for kk, v in attrs.items()}, 'x': [u2f(x) for x in xs]},
                            f'implementation {want!r} vs translated kernel {have!r}')
    _LOOP_QUEUE.clear()


# --------------------------------------------------------------------------- vector kernels (third generation)
def vec_scenarios(impl, rng, k):
    """Yields (callable, args, kwargs) for one vector kernel: arguments in the order of the kernel's inputs are taken from the
    bound call (arrays are copied before the call: the source may update them in place)."""
    if k.file == 'BADA/fuel_burn_base.py':
        mname = k.func.split('.')[1]
        scalar_dx = not any((not isinstance(i, str)) and i[0] == 'segment_distance' for i in k.inputs)
        for j in range(24):
            n = int(rng.choice([1, 2, 2, 3, 5, 17, 60]))
            eng = ['Jet', 'Turboprop', 'Piston'][j % 3]
            ap = impl.Bada3AircraftParameters()
            ap.assign_parameters_fromdict(dict(_bada_params(rng, eng), engine_type=eng, ac_type='GEN'))
            fb = impl.Bada3FuelBurnModel(ap)
            mass = rng.uniform(4e4, 8e4, n)
            sgr = rng.uniform(20.0, 400.0, n)
            sgr[rng.random(n) < 0.2] = rng.choice([0.0, 0.5, -3.0, 1.0, 0.999999])   # sub-unit / zero / negative: "infinite range"
            dx = float(rng.uniform(100.0, 5e4)) if scalar_dx else rng.uniform(0.0, 5e4, max(n - 1, 0))
            yield getattr(fb, mname), (mass, sgr, dx), {}
    elif k.file == 'emissions/emission.py':
        yield from _emission_vec_scenarios(impl, rng, k)


def _emission_vec_scenarios(impl, rng, k):
    return iter(())


def check_vec(ctx, files: set[str] | None = None) -> dict:
    """Validates the vector kernels: the real function is called on generated arrays, the generated list definition is run by
    the driver on the same bit patterns (`kern.evalv`), results compared element by element."""
    g, errors = pykern.translate_all()
    specs = [k for k in pykern.SYM_KERNELS if pykern.is_vector_kernel(k, g) or (k.name in errors and (k.out == 'vec' or k.vec_attrs))]
    specs = [k for k in specs if (files is None or k.file in files) and not k.loop]
    summary = ctx.extra.setdefault('kernels', {})
    sm = summary.setdefault('vector', {'kernels': 0, 'points': 0, 'elements': 0, 'mismatches': 0, 'untranslatable': {}})
    for k in specs:
        if k.name in errors:
            sm['untranslatable'][k.name] = errors[k.name]
            ctx.broken_obligation(f'kernel translator: {errors[k.name]}')
    present = set(ctx.driver.outs([{'op': 'kern.names'}])[0]['present']) if ctx.driver.available() else set()
    impl = Impl()
    rng = make_rng(ctx.pid, ctx.seed, 'vec-kernels')
    seen = set()
    for k in specs:
        if k.name in errors:
            continue
        if k.name not in present:
            ctx.broken_obligation(f'kernel {k.name} missing from the built driver (stale build?)')
            continue
        try:
            for fn, args, kwargs in vec_scenarios(impl, rng, k):
                _run_vec(ctx, g, k, fn, args, kwargs, sm, seen)
        except Exception as e:  # noqa: BLE001  the real API changed under the scenario generator
            ctx.diverge('kernel scenario', {'kernel': k.name}, f'{type(e).__name__}: {e}')
    sm['kernels'] = len(seen)
    ctx.count('vec_kernel_points', sm['points'])
    return sm


def _run_vec(ctx, g, k, fn, args, kwargs, sm, seen):
    bound = inspect.signature(fn).bind(*args, **kwargs)
    bound.apply_defaults()
    ns = {n: (np.array(v, dtype=float, copy=True) if isinstance(v, np.ndarray) else v) for n, v in bound.arguments.items()}
    try:
        with np.errstate(all='ignore'):
            res = fn(*[np.array(a, copy=True) if isinstance(a, np.ndarray) else a for a in args], **kwargs)
    except Exception as e:  # noqa: BLE001  refused by the real function (shape checks): nothing to compare
        ctx.count('vec_scenario_refused:' + type(e).__name__)
        return
    pt = {'x': [], 'b': [], 'v': [], 'n': []}
    try:
        for i in k.inputs:
            name, kind = (i, 'real') if isinstance(i, str) else i
            val = ns[name]
            if kind == 'vec':
                pt['v'].append([f2u(float(x)) for x in np.asarray(val, dtype=float).ravel()])
            elif kind == 'nat':
                pt['n'].append(int(val))
            elif kind == 'bool':
                pt['b'].append(bool(val))
            else:
                pt['x'].append(f2u(float(val)))
    except Exception as e:  # noqa: BLE001
        ctx.diverge(f'kernel {k.name}', {'kernel': k.name}, f'inputs not observable: {type(e).__name__}: {e}')
        return
    want = [float(x) for x in np.asarray(res, dtype=float).ravel()]
    got = ctx.driver.outs([{'op': 'kern.evalv', 'name': k.name, 'attrs': {}, 'vattrs': {}, 'pts': [pt]}])[0]
    have = [u2f(x) for x in got[0]]
    seen.add(k.name)
    sm['points'] += 1
    sm['elements'] += len(want)
    ctx.evaluations += 1
    ok = len(want) == len(have) and all(close(a, b, RTOL, 1e-300) for a, b in zip(want, have))
    if not ok:
        sm['mismatches'] += 1
        if sm['mismatches'] <= 5:
            ctx.diverge(f'kernel {k.name} (vector translation of {k.file}:{k.func}) vs implementation',
                        {'kernel': k.name, 'inputs': {n: (np.asarray(v).tolist() if isinstance(v, np.ndarray) else v) for n, v in ns.items() if n != 'self'}},
                        f'implementation {want[:8]!r} vs translated kernel {have[:8]!r}')


def check_fly_iteration(ctx, flights: int = 6) -> dict:
    """Validates `iter_mass_residual` (the residual `Builder._fly_iteration` returns): real flights, the frame of `_fly_iteration`
    observed at its return (the trajectory's last aircraft mass, the builder's starting mass and trip fuel, the residual)."""
    from harness import c0217_lib as L

    g, errors = pykern.translate_all()
    k = next((x for x in pykern.SYM_KERNELS if x.name == 'iter_mass_residual'), None)
    summary = ctx.extra.setdefault('kernels', {})
    sm = summary.setdefault('fly_iteration', {'points': 0, 'mismatches': 0})
    if k is None:
        return sm
    if k.name in errors:
        ctx.broken_obligation(f'kernel translator: {errors[k.name]}')
        return sm
    stale = k.name in pykern.LAST_STALE
    _ensure_config()
    import AEIC.trajectories.builders.legacy as legacy_mod

    code = _unwrap(legacy_mod.LegacyBuilder._fly_iteration).__code__
    rng = make_rng(ctx.pid, ctx.seed, 'fly-iteration-kernel')
    snaps: list = []

    def local(frame, event, arg):
        if event == 'return' and arg is not None:      # (a frame left by an exception also reports 'return', with arg None)
            loc = frame.f_locals
            try:
                snaps.append({'final_mass': float(loc['traj'].aircraft_mass[-1]), 'want': float(loc['mass_residual']),
                              'self.starting_mass': float(loc['self'].starting_mass), 'self.total_fuel_mass': float(loc['self'].total_fuel_mass)})
            except Exception as e:  # noqa: BLE001
                snaps.append({'err': f'{type(e).__name__}: {e}'})
        return local

    def tracer(frame, event, arg):
        return local if (event == 'call' and frame.f_code is code) else None

    for i in range(flights):
        case = L.gen_case(rng, n_choices=[3, 5, 7])
        case['iterate'] = bool(i % 2)
        old = sys.gettrace()
        sys.settrace(tracer)
        try:
            L.run_flight(case)
        except Exception:  # noqa: BLE001
            pass
        finally:
            sys.settrace(old)
    ops, wants = [], []
    for s_ in snaps:
        if 'err' in s_:
            if stale:
                ctx.count('source_tie_stale_unobservable:' + k.name)
            elif 'mass_residual' in s_['err'] or 'traj' in s_['err']:
                ctx.diverge(f'kernel {k.name}', {'kernel': k.name}, 'frame of _fly_iteration not observable: ' + s_['err'])
            continue
        attrs = {key: f2u(s_[key]) for key in g.attr_keys.get(k.name, []) if key in s_}
        ops.append({'op': 'kern.eval', 'name': k.name, 'attrs': attrs, 'pts': [{'x': [f2u(s_['final_mass'])], 'b': []}]})
        wants.append(s_['want'])
    if ops:
        for w, got in zip(wants, ctx.driver.outs(ops)):
            have = u2f(got[0])
            sm['points'] += 1
            ctx.evaluations += 1
            if not close(w, have, RTOL, 1e-300):
                sm['mismatches'] += 1
                if sm['mismatches'] <= 3:
                    ctx.diverge(f'kernel {k.name} (residual of Builder._fly_iteration) vs implementation', {'kernel': k.name},
                                f'implementation {w!r} vs translated kernel {have!r}')
    return sm


# --------------------------------------------------------------------------- driver loops (loop mode with array state)
def check_driver_loops(ctx, profiles: int = 6) -> dict:
    """Validates the driver-step kernels (`driver_*`): the real `iterate_flight_simulation_*` methods run on generated profiles; a
    line tracer copies the mass array and the numeric locals every time the running frame reaches the first line of the loop body
    and at the return; for every pass the generated kernel (mass before, the specific ground range that pass computed, the segment
    lengths, the scalar parameters) is compared with the mass after (and with the take-off mass the pass prescribed)."""
    import ast

    g, errors = pykern.translate_all()
    specs = [k for k in pykern.SYM_KERNELS if k.name.startswith('driver_')]
    summary = ctx.extra.setdefault('kernels', {})
    sm = summary.setdefault('driver_loops', {'kernels': 0, 'points': 0, 'elements': 0, 'mismatches': 0, 'untranslatable': {}})
    for k in specs:
        if k.name in errors:
            sm['untranslatable'][k.name] = errors[k.name]
            ctx.broken_obligation(f'kernel translator: {errors[k.name]}')
    sm['stale'] = sorted(n for n in pykern.LAST_STALE if any(k.name == n for k in specs))
    present = set(ctx.driver.outs([{'op': 'kern.names'}])[0]['present']) if ctx.driver.available() else set()
    impl = Impl()
    rng = make_rng(ctx.pid, ctx.seed, 'driver-kernels')
    mod = pykern.Module.get('BADA/model.py')
    groups: dict[str, list] = {}
    for k in specs:
        if k.name in errors:
            continue
        if k.name not in present:
            ctx.broken_obligation(f'kernel {k.name} missing from the built driver (stale build?)')
            continue
        groups.setdefault(k.func.split('.')[1], []).append(k)
    queue, seen = [], set()
    for mname, ks in groups.items():
        fn_ast = mod.method('Bada3FuelBurnModel', mname)
        loop = next((st for st in fn_ast[1].body if isinstance(st, ast.For)), None) if fn_ast else None
        if loop is None:
            if not all(k.name in pykern.LAST_STALE for k in ks):
                ctx.diverge('kernel scenario', {'group': mname}, 'no loop to observe')
            continue
        body_line = loop.body[0].lineno
        for j in range(profiles):
            eng = ['Jet', 'Turboprop', 'Piston'][j % 3]
            P = _bada_params(rng, eng)
            ap = impl.Bada3AircraftParameters()
            ap.assign_parameters_fromdict(dict(P, engine_type=eng, ac_type='GEN'))
            fb = impl.Bada3FuelBurnModel(ap)
            n = int(rng.choice([2, 3, 6, 20]))
            alt = np.sort(rng.uniform(500.0, 11000.0, n))
            T = np.array(impl.sa.temperature_at_altitude_isa_bada4(alt), dtype=float)
            v = rng.uniform(120.0, 240.0, n)
            args = dict(temperature=T, altitude=alt, v_tas=v, rocd=rng.uniform(-5.0, 12.0, n), acceleration=np.zeros(n),
                        in_cruise=rng.random(n) < 0.5, groundspeed=v + rng.uniform(-20.0, 20.0, n),
                        segment_distance=rng.uniform(2e3, 8e4, n - 1))
            m_ref = float(P['S_ref'] * rng.uniform(300.0, 600.0))
            if 'constant_initial' in mname:
                args['initial_mass'] = m_ref
            elif 'constant_final' in mname:
                args['final_mass'] = m_ref
            else:
                args.update(initial_mass_estimate=m_ref, mtow=float(m_ref * rng.choice([0.9, 1.0, 1.3])), oew=0.5 * m_ref,
                            mpl=0.25 * m_ref, load_factor=float(rng.uniform(0.3, 1.0)))
                args['reserve_fuel_fraction' if mname.endswith('fraction') else 'reserve_fuel'] = (
                    float(rng.uniform(0.0, 0.2)) if mname.endswith('fraction') else float(rng.uniform(0.0, 0.03) * m_ref))
            meth = getattr(fb, mname)
            code = _unwrap(meth).__code__
            snaps: list = []

            def local(frame, event, arg, snaps=snaps):
                if (event == 'line' and frame.f_lineno == body_line) or (event == 'return' and arg is not None):
                    loc = frame.f_locals
                    s_ = {n_: np.array(v_, dtype=float, copy=True) for n_, v_ in loc.items()
                          if isinstance(v_, np.ndarray) and v_.dtype.kind in 'fiu'}
                    s_.update({n_: float(v_) for n_, v_ in loc.items() if _numeric(v_) and np.ndim(v_) == 0})
                    snaps.append(s_)
                return local

            old = sys.gettrace()
            sys.settrace(lambda fr, ev, a: local if (ev == 'call' and fr.f_code is code) else None)
            try:
                with np.errstate(all='ignore'):
                    meth(**args)
            except Exception:  # noqa: BLE001
                ctx.count('driver_scenario_refused')
                continue
            finally:
                sys.settrace(old)
            # (a first body statement that spans several source lines reports its first line more than once per pass: keep the
            # first arrival of every pass — the loop variable tells the passes apart — and the return)
            lv = loop.target.id if isinstance(loop.target, ast.Name) else None
            kept: list = []
            for s_ in snaps:
                if kept and lv is not None and s_ is not snaps[-1] and kept[-1].get(lv) == s_.get(lv):
                    continue
                kept.append(s_)
            snaps = kept
            for before, after in zip(snaps, snaps[1:]):
                for k in ks:
                    pt = {'x': [], 'b': [], 'v': [], 'n': []}
                    try:
                        for i in k.inputs:
                            name, kind = (i, 'real') if isinstance(i, str) else i
                            src = after if name in k.cut else before       # the cut is what THIS pass computed
                            if kind == 'vec':
                                pt['v'].append([f2u(float(x)) for x in np.asarray(src[name], dtype=float).ravel()])
                            else:
                                pt['x'].append(f2u(float(src[name])))
                        want = after[k.target]
                    except KeyError as e:
                        if k.name in pykern.LAST_STALE:
                            ctx.count('source_tie_stale_unobservable:' + k.name)
                        elif k.target == 'initial_mass' or str(e).strip("'") == 'initial_mass':
                            pass          # (the take-off mass exists only after the first pass assigned it)
                        else:
                            ctx.diverge(f'kernel {k.name}', {'kernel': k.name}, f'driver state not observable: {e}')
                        continue
                    queue.append((k, {'op': 'kern.evalv', 'name': k.name, 'attrs': {}, 'vattrs': {}, 'pts': [pt]},
                                  [float(x) for x in np.asarray(want, dtype=float).ravel()]))
    if queue:
        for (k, _op, want), got in zip(queue, ctx.driver.outs([q[1] for q in queue])):
            have = [u2f(x) for x in got[0]]
            seen.add(k.name)
            sm['points'] += 1
            sm['elements'] += len(want)
            ctx.evaluations += 1
            if not (len(want) == len(have) and all(close(a, b, RTOL, 1e-300) for a, b in zip(want, have))):
                sm['mismatches'] += 1
                if sm['mismatches'] <= 5:
                    ctx.diverge(f'kernel {k.name} (one pass of the loop of {k.file}:{k.func}) vs implementation', {'kernel': k.name},
                                f'implementation {want[:6]!r} vs translated kernel {have[:6]!r}')
    sm['kernels'] = len(seen)
    ctx.count('driver_kernel_points', sm['points'])
    return sm
