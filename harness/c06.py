"""C06 — the table-based performance model reproduces its table and never extrapolates.

Parts (see design_notes/C06.md):
  * proofs: lean/AeicProofs/Properties/C06.lean (ctx.proofs())
  * correspondence: real `PerformanceModel.from_data(...).evaluate(...)`, `PTFData.load` + `build_performance_table`
    against the Lean model (`c06.load`, `c06.eval`, `c06.history`, `c06.build`, `c06.consts`)
  * clauses evaluated on the implementation's output with a reference computed here (independent of the model)

A *case* is one of
  {'kind': 'table', 'rows': [[fl, mass, tas, rocd, ff], ...], 'queries': [[alt, 'val'|'min'|'max', mass, phase, tag], ...]}
  {'kind': 'load',  'rows': [...], 'why': <what is wrong with the table>}
  {'kind': 'ptf',   'ptf': {...structured PTF...}}
Floats are stored as Python reprs (exact round trip through JSON; NaN/Infinity in the non-finite query stream use
Python's JSON extension).
"""
from __future__ import annotations

import json
import math
import os
import shutil
import tempfile
from pathlib import Path

import numpy as np

from harness.common import CORPUS_DIR, ROOT, aeic_setup, close, f2u, u2f

PID = 'C06'
RULE = (
    'tables: 1-10 flight levels per phase (BADA-like integers or random floats), three masses, random values incl. '
    'negative/zero/large, cruise ROCD on 0 / +-tol / inside tol, rows in builder order or shuffled, phases occasionally '
    'absent; queries per table and phase: every node (altitude = fl*FL_TO_METERS and fl/METERS_TO_FL), interior points, '
    'points on grid lines, both sides of every interior node, 1 ulp..far outside each edge in altitude and mass, '
    "'min'/'max', NaN/inf; malformed tables: missing cell, duplicate cell, duplicate+missing (row count preserved), 2/4 "
    'masses, wrong mass count in one phase, mass-dependent TAS/fuel/ROCD; PTF: structured data rendered to BADA PTF text, '
    'parsed, built, loaded, evaluated at every row. A case is distinct by its content hash; non-trivial = hits a '
    'non-default branch (edge, outside, single level, symbolic mass, malformed, tolerance-boundary ROCD).'
)
TRUSTED = [
    'Lean 4.33 kernel',
    'axioms propext/Classical.choice/Quot.sound',
    'Mathlib v4.33',
    'correspondence harness harness/c06.py (model = code is sampled, not proved)',
    'constants translator harness/common/translator.py (units.py regenerated structurally)',
    'scipy interpn / pandas unique, duplicated, sort_values, boolean filters: re-modelled, validated by correspondence',
    'PTF regex text parser: correspondence only (ptf_rows_reproduced starts from parsed numbers)',
    'pydantic coercion of the table to float',
]
ASSUME = [
    'IEEE rounding is not modelled: theorems are over the reals; impl vs Float model compared with rtol 1e-9 (measured: bit-identical)',
    'a tabulated edge level expressed in metres may round 1 ulp outside the table (alt*METERS_TO_FL != fl in doubles for ~4% of '
    'integer levels even with exact reciprocal factors): counted as tie_suspects, retried one step inward, never an alarm',
    'tables contain finite numbers only (NaN/inf in a table are outside the model)',
    'ZERO_ROCD_TOL is read from the class and passed to the model (theorems hold for every tol >= 0)',
]
PHASES = ['climb', 'cruise', 'descend']
FINDING_LAZY = 'C06-phase-mass-count-checked-lazily'


# --------------------------------------------------------------------------------------------- implementation access
class Impl:
    def __init__(self):
        from AEIC import units
        from AEIC.performance.models import PerformanceModel
        from AEIC.performance.models.legacy import PerformanceTable
        from AEIC.performance.types import AircraftState, SimpleFlightRules

        self.PerformanceModel = PerformanceModel
        self.AircraftState = AircraftState
        self.rules = {'climb': SimpleFlightRules.CLIMB, 'cruise': SimpleFlightRules.CRUISE, 'descend': SimpleFlightRules.DESCEND}
        self.tol = float(PerformanceTable.ZERO_ROCD_TOL)
        self.M2FL = float(units.METERS_TO_FL)
        self.FL2M = float(units.FL_TO_METERS)
        self.units = units
        # the command module calls Config.load() at import time: give it a clean slate
        from AEIC.config import Config

        Config.reset()
        from AEIC.commands import make_performance_model as mpm
        from AEIC.parsers.ptf_reader import PTFData

        self.build_performance_table = mpm.build_performance_table
        self.PTFData = PTFData

    def load(self, rows):
        """-> ('ok', model) | ('refused'|'internal', exception type name)"""
        data = dict(
            model_type='legacy', aircraft_name='X', aircraft_class='narrow', maximum_altitude_ft=41000,
            maximum_payload_kg=1000, number_of_engines=2, speeds=None, lto_performance=None,
            flight_performance=dict(cols=['fl', 'mass', 'tas', 'rocd', 'fuel_flow'], data=[list(map(float, r)) for r in rows]),
        )
        # every second table goes through the public *file* loader, always at the same path (rewritten per table): a model
        # file is what `make_performance_model` produces and `PerformanceModel.load` is how it is read back (seed C06_4:
        # loader memoised by path). TOML floats are written with repr and parsed exactly, so the values are bit-identical.
        self.n_loads = getattr(self, 'n_loads', 0) + 1
        try:
            if self.n_loads % 2 == 0:
                import tempfile

                import tomli_w

                if getattr(self, 'file_dir', None) is None:
                    self.file_dir = tempfile.mkdtemp(prefix='c06_model_')
                path = Path(self.file_dir) / 'model.toml'
                # TOML has no null: the file variant carries the speeds / LTO sections of the shipped sample model instead
                # (neither enters `evaluate`)
                if getattr(self, 'sample', None) is None:
                    import tomllib

                    from harness.common import REPO

                    with open(REPO / 'src' / 'AEIC' / 'data' / 'performance' / 'sample_performance_model.toml', 'rb') as f:
                        self.sample = tomllib.load(f)
                fdata = {k: v for k, v in self.sample.items() if k not in ('flight_performance', 'APU_name')}
                fdata.update({k: v for k, v in data.items() if v is not None})
                with open(path, 'wb') as fp:
                    tomli_w.dump(fdata, fp)
                return 'ok', self.PerformanceModel.load(path)
            return 'ok', self.PerformanceModel.from_data(data)
        except ValueError as e:  # pydantic ValidationError is a ValueError
            return 'refused', type(e).__name__
        except Exception as e:
            return 'internal', type(e).__name__

    def eval(self, model, alt, kind, mass, phase, tas=None, roc=None):
        m = mass if kind == 'val' else kind
        try:
            st = self.AircraftState(altitude=alt, aircraft_mass=m, true_airspeed=tas, rate_of_climb=roc)
            p = model.evaluate(st, self.rules[phase])
            return 'ok', (float(p.true_airspeed), float(p.rate_of_climb), float(p.fuel_flow))
        except ValueError as e:
            return 'refused', type(e).__name__
        except Exception as e:
            return 'internal', type(e).__name__


# --------------------------------------------------------------------------------------------- reference (clauses)
def phase_of(rocd, tol):
    if rocd > tol:
        return 'climb'
    if rocd < -tol:
        return 'descend'
    if -tol <= rocd <= tol:
        return 'cruise'
    return None


class Ref:
    """Independent reading of a table: per phase the set of (fl, mass) nodes and their values."""

    def __init__(self, rows, tol):
        self.rows = [tuple(map(float, r)) for r in rows]
        self.tol = tol
        self.by = {p: {} for p in PHASES}
        self.dups = {p: 0 for p in PHASES}
        for fl, m, tas, rocd, ff in self.rows:
            p = phase_of(rocd, tol)
            if p is None:
                continue
            if (fl, m) in self.by[p]:
                self.dups[p] += 1
            self.by[p][(fl, m)] = (tas, rocd, ff)
        self.F = {p: sorted({k[0] for k in self.by[p]}) for p in PHASES}
        self.M = {p: sorted({k[1] for k in self.by[p]}) for p in PHASES}
        self.allM = sorted({r[1] for r in self.rows})

    def need_masses(self, p):
        return 1 if p == 'descend' else 3

    def grid_complete(self, p):
        """complete FL x mass grid without duplicates (an absent phase is vacuously complete)"""
        return self.dups[p] == 0 and len(self.by[p]) == len(self.F[p]) * len(self.M[p])

    def mass_count_ok(self, p):
        return not self.by[p] or len(self.M[p]) == self.need_masses(p)

    def usable(self, p):
        return bool(self.by[p]) and self.grid_complete(p) and len(self.M[p]) == self.need_masses(p)

    def resolve_mass(self, kind, mass):
        if kind == 'min':
            return self.allM[0]
        if kind == 'max':
            return self.allM[-1]
        return mass

    @staticmethod
    def _bracket(g, x):
        if len(g) == 1:
            return g[0], g[0]
        i = int(np.searchsorted(g, x, side='right')) - 1
        i = max(0, min(i, len(g) - 2))
        return g[i], g[i + 1]

    def corners(self, p, fl, mass):
        f0, f1 = self._bracket(self.F[p], fl)
        if len(self.M[p]) > 1:
            m0, m1 = self._bracket(self.M[p], mass)
            keys = [(f0, m0), (f0, m1), (f1, m0), (f1, m1)]
        else:
            m = self.M[p][0]
            keys = [(f0, m), (f1, m)]
        return [self.by[p][k] for k in keys], (f0, f1)


def ulp_dist(a, b):
    if a == b:
        return 0
    if math.isnan(a) or math.isnan(b) or math.isinf(a) or math.isinf(b):
        return 1 << 62

    def key(x):
        u = f2u(x)
        return u if u < (1 << 63) else (1 << 63) - u

    return abs(key(a) - key(b))


# --------------------------------------------------------------------------------------------- generators
BADA_FLS = [0, 5, 10, 15, 20, 30, 40, 60, 80, 100, 120, 140, 160, 180, 200, 220, 240, 260, 280, 290, 310, 330, 350, 370,
            390, 410, 430, 450, 470, 490, 510]


def gen_fls(rng, n, style):
    if style == 'bada':
        start = int(rng.integers(0, len(BADA_FLS) - n + 1))
        if rng.random() < 0.5:
            return [float(x) for x in BADA_FLS[start:start + n]]
        return sorted(float(x) for x in rng.choice(BADA_FLS, size=n, replace=False))
    if style == 'int':
        return sorted(float(x) for x in rng.choice(np.arange(0, 700), size=n, replace=False))
    return sorted({float(x) for x in rng.uniform(0, 600, size=n)})


def gen_value(rng, style):
    if style == 'phys':
        return float(np.round(rng.uniform(0.1, 300.0), int(rng.integers(0, 6))))
    if style == 'wild':
        return float(rng.choice([0.0, -1.0, 1.0, 1e6, -1e6, 1e-6]) if rng.random() < 0.3 else rng.normal(0, 100))
    return float(rng.uniform(-50, 500))


def gen_table(rng, tol):
    """valid table (as the documentation describes it) -> rows, info"""
    mstyle = rng.random()
    if mstyle < 0.6:
        masses = sorted(int(x) for x in rng.choice(np.arange(20000, 400000), size=3, replace=False))
        masses = [float(m) for m in masses]
    else:
        masses = sorted({float(x) for x in rng.uniform(1.0, 1e5, size=3)})
        while len(masses) < 3:
            masses = sorted({float(x) for x in rng.uniform(1.0, 1e5, size=3)})
    fstyle = str(rng.choice(['bada', 'bada', 'int', 'float']))
    vstyle = str(rng.choice(['phys', 'phys', 'uni', 'wild']))
    absent = str(rng.choice(PHASES)) if rng.random() < 0.08 else None
    share = rng.random() < 0.5
    base_n = int(rng.integers(1, 11)) if rng.random() < 0.9 else 1
    base_fls = gen_fls(rng, base_n, fstyle)
    rows = []
    desc_mass = masses[1] if rng.random() < 0.7 else float(rng.choice(masses))
    for p in PHASES:
        if p == absent:
            continue
        if share:
            fl_set = base_fls
        else:
            n = int(rng.integers(1, 11))
            fl_set = gen_fls(rng, n, fstyle)
        for fl in fl_set:
            tas = gen_value(rng, vstyle)
            ff_fl = gen_value(rng, vstyle)
            if p == 'climb':
                for m in masses:
                    rocd = tol + abs(gen_value(rng, vstyle)) + (1e-9 if rng.random() < 0.5 else 1e-3)
                    if rng.random() < 0.03:
                        rocd = float(np.nextafter(tol, 1.0))
                    rows.append([fl, m, tas, rocd, ff_fl])
            elif p == 'cruise':
                for m in masses:
                    r = rng.random()
                    rocd = 0.0 if r < 0.6 else float(rng.choice([tol, -tol, tol / 2, -tol / 3, -0.0]))
                    rows.append([fl, m, tas, rocd, gen_value(rng, vstyle)])
            else:
                rocd = -tol - abs(gen_value(rng, vstyle)) - (1e-9 if rng.random() < 0.5 else 1e-3)
                if rng.random() < 0.03:
                    rocd = float(np.nextafter(-tol, -1.0))
                rows.append([fl, desc_mass, tas, rocd, ff_fl])
    order = rng.random()
    if order < 0.45:
        rows.sort(key=lambda x: (x[1], x[0], -x[3]))
    elif order < 0.9:
        rng.shuffle(rows)
    else:
        rows.sort(key=lambda x: (-x[0], x[1]))
    return [list(map(float, r)) for r in rows]


def gen_queries(rng, ref: Ref, impl: Impl, n_random):
    """queries [alt, kind, mass, phase, tag] for every phase of a table"""
    qs = []
    M2FL, FL2M = impl.M2FL, impl.FL2M
    allM = ref.allM
    mlo, mhi = allM[0], allM[-1]

    def rmass():
        return float(rng.uniform(mlo, mhi))

    for p in PHASES:
        F, M = ref.F[p], ref.M[p]
        if not F:
            qs.append([float(rng.uniform(0, 12000)), 'val', rmass(), p, 'absent-phase'])
            continue
        f0, f1 = F[0], F[-1]
        # nodes, in metres by both library factors
        for (fl, m) in ref.by[p]:
            qs.append([fl * FL2M, 'val', m, p, 'node-m'])
            if rng.random() < 0.5:
                qs.append([fl / M2FL, 'val', m, p, 'node-d'])
            if p == 'descend' and rng.random() < 0.5:
                qs.append([fl * FL2M, 'val', float(rng.uniform(0.1 * mlo, 3 * mhi)), p, 'node-anymass'])
        # symbolic masses
        for kind in ('min', 'max'):
            fl = float(rng.choice(F)) if rng.random() < 0.5 else float(rng.uniform(f0, f1))
            qs.append([fl * FL2M, kind, 0.0, p, 'sym'])
        # interior
        for _ in range(n_random):
            qs.append([float(rng.uniform(f0, f1)) * FL2M, 'val', rmass(), p, 'inside'])
        # grid lines
        for _ in range(max(2, n_random // 3)):
            qs.append([float(rng.choice(F)) * FL2M, 'val', rmass(), p, 'line-fl'])
            qs.append([float(rng.uniform(f0, f1)) * FL2M, 'val', float(rng.choice(M)), p, 'line-m'])
        # both sides of interior nodes (continuity)
        for fl in F[1:-1]:
            m = rmass()
            a = fl * FL2M
            for s in (-1, 1):
                qs.append([a * (1 + s * 1e-12), 'val', m, p, 'near-node'])
        if len(M) > 2:
            fl = float(rng.uniform(f0, f1))
            for s in (-1, 0, 1):
                qs.append([fl * FL2M, 'val', M[1] * (1 + s * 1e-12), p, 'near-mass-node'])
        # outside in altitude
        a0, a1 = f0 * FL2M, f1 * FL2M
        for a in (a1 * (1 + 1e-9) + 1e-9, a1 * (1 + 1e-6) + 1e-6, a1 + 1.0, a1 * 2 + 100.0, 1e9,
                  a0 * (1 - 1e-9) - 1e-9, a0 * (1 - 1e-6) - 1e-6, a0 - 1.0, -1e4):
            qs.append([float(a), 'val', rmass() if rng.random() < 0.7 else float(rng.choice(allM)), p, 'out-fl'])
        # a few ulps around the edges (both outcomes legitimate; correspondence + generic clause decide)
        for a in (a0, a1):
            x = a
            k = int(rng.integers(1, 4))
            for _ in range(k):
                x = float(np.nextafter(x, math.inf))
            qs.append([x, 'val', rmass(), p, 'edge-ulp'])
            x = a
            for _ in range(k):
                x = float(np.nextafter(x, -math.inf))
            qs.append([x, 'val', rmass(), p, 'edge-ulp'])
        # outside in mass
        fl = float(rng.uniform(f0, f1))
        for m in (mhi * (1 + 1e-12) + 1e-12, mhi + 1.0, mhi * 3, mlo * (1 - 1e-12) - 1e-12, mlo - 1.0, -mhi, 0.0,
                  float(np.nextafter(mhi, math.inf)), float(np.nextafter(mlo, -math.inf))):
            qs.append([fl * FL2M, 'val', float(m), p, 'out-mass'])
        qs.append([a1 * 2 + 50.0, 'val', mhi * 2, p, 'out-both'])
        # non-finite states: never a number back for the altitude; mass only matters in mass-dependent phases
        if rng.random() < 0.5:
            qs.append([float(rng.choice([math.nan, math.inf, -math.inf])), 'val', rmass(), p, 'nonfinite'])
            qs.append([fl * FL2M, 'val', float(rng.choice([math.nan, math.inf, -math.inf])), p, 'nonfinite'])
    rng.shuffle(qs)
    return qs


def gen_malformed(rng, tol):
    """table that is NOT a complete grid per phase (or otherwise must be refused) -> rows, why"""
    for _ in range(50):
        rows = gen_table(rng, tol)
        ref = Ref(rows, tol)
        present = [p for p in PHASES if ref.by[p]]
        if not present:
            continue
        why = str(rng.choice(['missing', 'duplicate', 'dup+missing', 'dup+missing', 'two-masses', 'four-masses',
                              'phase-mass-count', 'phase-mass-count', 'mass-dep-tas', 'mass-dep-ff', 'mass-dep-rocd',
                              'one-mass-table']))
        p = str(rng.choice(present))
        idx = [i for i, r in enumerate(rows) if phase_of(r[3], tol) == p]
        if why == 'missing':
            if len(idx) < 2:
                continue
            rows.pop(int(rng.choice(idx)))
        elif why == 'duplicate':
            r = list(rows[int(rng.choice(idx))])
            if rng.random() < 0.5:
                r[4] = r[4] + 1.0
            rows.insert(int(rng.integers(0, len(rows) + 1)), r)
        elif why == 'dup+missing':
            # keep the row count: replace one cell by a copy of another cell of the same phase
            if len(idx) < 2:
                continue
            a, b = (int(x) for x in rng.choice(idx, size=2, replace=False))
            if rng.random() < 0.6:
                # same flight level where possible: the FL-only checks then see nothing
                same = [i for i in idx if i != a and rows[i][0] == rows[a][0]]
                if same:
                    b = int(rng.choice(same))
            if rng.random() < 0.5:
                rows[b] = list(rows[a])
            else:
                # a typo in the flight-level / mass columns only: the duplicated cell keeps its own speed, climb rate and fuel flow
                rows[b] = [rows[a][0], rows[a][1]] + list(rows[b][2:])
        elif why == 'two-masses':
            ms = ref.allM
            drop = float(rng.choice(ms))
            rows = [r for r in rows if r[1] != drop]
        elif why == 'four-masses':
            p = str(rng.choice([q for q in present if q != 'descend'] or present))
            extra = ref.allM[-1] + 1000.0
            for fl in ref.F[p]:
                src = ref.by[p][(fl, ref.M[p][0])]
                rows.append([fl, extra, src[0], src[1], src[2]])
        elif why == 'phase-mass-count':
            # whole table keeps three masses, one phase gets the wrong number
            if p == 'descend':
                others = [m for m in ref.allM if m not in ref.M[p]]
                add = others if rng.random() < 0.5 else others[:1]
                for fl in ref.F[p]:
                    src = ref.by[p][(fl, ref.M[p][0])]
                    for m in add:
                        rows.append([fl, m, src[0], src[1], src[2]])
            else:
                if len(present) < 2:
                    continue
                keep = ref.M[p][:int(rng.integers(1, 3))]
                rows = [r for r in rows if not (phase_of(r[3], tol) == p and r[1] not in keep)]
            if len({r[1] for r in rows}) != 3:
                continue
        elif why in ('mass-dep-tas', 'mass-dep-ff', 'mass-dep-rocd'):
            col = {'mass-dep-tas': 2, 'mass-dep-ff': 4, 'mass-dep-rocd': 3}[why]
            if why == 'mass-dep-ff':
                p = 'climb'
            if why == 'mass-dep-rocd':
                p = 'descend'
            if p not in present:
                continue
            idx = [i for i, r in enumerate(rows) if phase_of(r[3], tol) == p]
            if p == 'descend':
                # descent has one mass: dependence on something else = two rows for one FL -> duplicate
                r = list(rows[int(rng.choice(idx))])
                r[col] = r[col] - 1.0 if col == 3 else r[col] + 1.0
                rows.append(r)
            else:
                i = int(rng.choice(idx))
                rows[i] = list(rows[i])
                rows[i][col] += 1.0
        elif why == 'one-mass-table':
            m = ref.allM[1]
            rows = [r for r in rows if r[1] == m]
        rng.shuffle(rows)
        if rows:
            return [list(map(float, r)) for r in rows], why
    return None, None


def gen_ptf(rng):
    n = int(rng.integers(1, 14))
    start = int(rng.integers(0, len(BADA_FLS) - n + 1))
    fls = BADA_FLS[start:start + n] if rng.random() < 0.7 else sorted(int(x) for x in rng.choice(np.arange(0, 600), size=n, replace=False))
    lo = int(rng.integers(2000, 200000))
    nom = lo + int(rng.integers(1, 100000))
    hi = nom + int(rng.integers(1, 100000))
    cruise_from = int(rng.integers(0, n)) if rng.random() < 0.7 else 0
    rows = []
    zero_rocd = rng.random() < 0.06
    for i, fl in enumerate(fls):
        r = {'fl': int(fl)}
        if i >= cruise_from:
            f = sorted(float(np.round(rng.uniform(0.1, 300), 2)) for _ in range(3))
            r['cruise'] = [int(rng.integers(80, 520))] + f
        rc = sorted((int(rng.integers(1, 9000)) for _ in range(3)), reverse=True)
        if zero_rocd and i == len(fls) - 1:
            rc[2] = 0
        r['climb'] = [int(rng.integers(80, 520))] + rc + [float(np.round(rng.uniform(0.1, 400), 2))]
        r['descent'] = [int(rng.integers(80, 520)), int(rng.integers(1, 6000)), float(np.round(rng.uniform(0.01, 90), 2))]
        rows.append(r)
    return {'lo': lo, 'nom': nom, 'hi': hi, 'max_alt': int(max(fls) * 100 + 1000), 'payload': int(rng.integers(100, 60000)),
            'rows': rows, 'blank_lines': bool(rng.random() < 0.7)}


def render_ptf(p):
    L = []
    L.append('BADA PERFORMANCE FILE                                        Mar 09 2025')
    L.append('')
    L.append('AC/Type: TEST__')
    L.append('                              Source OPF File:               Mar 09 2025')
    L.append('                              Source APF file:               Mar 09 2025')
    L.append('')
    L.append(' Speeds:   CAS(LO/HI)  Mach   Mass Levels [kg]         Temperature:  ISA')
    L.append(f" climb   - 250/300     0.80   low     -   {p['lo']}")
    L.append(f" cruise  - 250/280     0.80   nominal -   {p['nom']}        Max Alt. [ft]:  {p['max_alt']}")
    L.append(f" descent - 250/290     0.80   high    -   {p['hi']}        Max Payload [kg]:  {p['payload']}")
    L.append('=' * 90)
    L.append(' FL |          CRUISE           |               CLIMB               |       DESCENT')
    L.append('    |  TAS          fuel        |  TAS          ROCD         fuel   |  TAS  ROCD    fuel')
    L.append('    | [kts]       [kg/min]      | [kts]        [fpm]       [kg/min] | [kts] [fpm] [kg/min]')
    L.append('    |          lo   nom    hi   |         lo    nom    hi    nom    |        nom    nom')
    L.append('=' * 90)
    for r in p['rows']:
        if 'cruise' in r:
            c = r['cruise']
            cs = f" {c[0]:4d}   {c[1]:6.2f} {c[2]:6.2f} {c[3]:6.2f} "
        else:
            cs = ' ' * 27
        k = r['climb']
        ks = f" {k[0]:4d}   {k[1]:5d} {k[2]:5d} {k[3]:5d}  {k[4]:6.2f}  "
        d = r['descent']
        ds = f" {d[0]:4d}  {d[1]:5d}  {d[2]:6.2f}"
        L.append(f"{r['fl']:3d} |{cs}|{ks}|{ds}")
        if p.get('blank_lines', True):
            L.append('    |                           |                                   |')
    L.append('=' * 90)
    return '\n'.join(L) + '\n'


# --------------------------------------------------------------------------------------------- running cases
class Runner:
    def __init__(self, ctx, impl: Impl):
        self.ctx = ctx
        self.impl = impl
        self.tol = impl.tol
        self.bit_identical = 0
        self.compared = 0
        self.tmp = None
        self.memo = {}
        self.widened = 0
        self.table_log = []

    # ---- model access (one driver process per batch: a process start costs ~50 ms)
    def model(self, ops):
        keys = [json.dumps(o, sort_keys=True, separators=(',', ':')) for o in ops]
        miss = [(k, o) for k, o in zip(keys, ops) if k not in self.memo]
        if miss:
            for (k, _), out in zip(miss, self.ctx.driver.outs([o for _, o in miss])):
                self.memo[k] = out
        return [self.memo[k] for k in keys]

    def table_ops(self, rows, qs):
        return [{'op': 'c06.load', 'tol': f2u(self.tol), 'rows': self.rows_bits(rows)},
                {'op': 'c06.history', 'tol': f2u(self.tol), 'rows': self.rows_bits(rows), 'queries': self.q_bits(qs)},
                {'op': 'c06.eval', 'tol': f2u(self.tol), 'rows': self.rows_bits(rows), 'queries': self.q_bits(qs)}]

    def prefetch(self, cases):
        ops = []
        for c in cases:
            if c.get('kind') in ('table', 'load'):
                ops += self.table_ops(c['rows'], c.get('queries', []))
        self.model(ops)
        self.memo_limit()

    def memo_limit(self):
        if len(self.memo) > 20000:
            self.memo.clear()

    def rows_bits(self, rows):
        return [[f2u(x) for x in r] for r in rows]

    def q_bits(self, qs):
        return [[f2u(q[0]), q[1], f2u(q[2]), q[3]] for q in qs]

    # ---- table case: clauses + correspondence
    def run_table(self, case, widen=True):
        nv0 = len(self.ctx.violations)
        self.table_log.append(case)
        try:
            self._run_table(case, widen)
        finally:
            for v in self.ctx.violations[nv0:]:
                v.setdefault('tab', len(self.table_log) - 1)

    def _run_table(self, case, widen=True):
        ctx, impl, tol = self.ctx, self.impl, self.tol
        rows, qs = case['rows'], case['queries']
        ref = Ref(rows, tol)
        st, model = impl.load(rows)
        outs = self.model(self.table_ops(rows, qs))
        mload = outs[0]
        small = {'kind': 'table', 'rows': rows}
        # load acceptance
        if (st == 'ok') != (mload['asis'] == 'ok'):
            ctx.diverge('load acceptance (validate)', dict(small, queries=[]), f'impl={st}:{model if st != "ok" else ""} model={mload}')
        self.load_clauses(ref, rows, st, model, mload)
        if st != 'ok':
            return
        # history on ONE object (the generated order), then every query on a fresh object for a subset
        res = [impl.eval(model, q[0], q[1], q[2], q[3]) for q in qs]
        mh, me = outs[1], outs[2]
        diverged = []
        for i, (q, r) in enumerate(zip(qs, res)):
            c1 = {'kind': 'table', 'rows': rows, 'queries': [q]}
            for which, mo in (('history', mh[i]), ('fresh', me[i])):
                d = self.compare_result(ref, q, r, mo)
                if d:
                    ctx.diverge(f'evaluate vs model ({which})', c1, d)
                    diverged.append(q)
                    break
            nv = len(ctx.violations)
            self.query_clauses(ref, model, q, r, rows)
            if len(ctx.violations) > nv and not same_result(r, impl.eval(impl.load(rows)[1], q[0], q[1], q[2], q[3])):
                # the failing answer depends on the calls made before: the replay needs the whole history
                for v in ctx.violations[nv:]:
                    v['case'] = {'kind': 'table', 'rows': rows, 'queries': qs[:i + 1], 'history_dependent': True}
        # independence from history / other state fields / object identity (clause depends_only)
        k = min(len(qs), 12)
        if k:
            st2, model2 = impl.load(rows)
            pick = [int(x) for x in ctx.rng.choice(len(qs), size=k, replace=False)]
            for i in pick[::-1]:
                q = qs[i]
                r2 = impl.eval(model2, q[0], q[1], q[2], q[3], tas=float(ctx.rng.uniform(50, 300)), roc=float(ctx.rng.normal(0, 10)))
                if not same_result(res[i], r2):
                    ctx.clause_fail('depends_only_on_alt_mass_phase', {'kind': 'table', 'rows': rows, 'queries': qs[:i + 1], 'probe': i},
                                    detail=f'same state, different history/airspeed fields: {res[i]} vs {r2}')
        if diverged and widen and self.widened < 6 and not ctx.violations:
            self.widened += 1
            self.widen(ref, model, rows, diverged)

    def compare_result(self, ref, q, r, mo):
        if r[0] == 'ok':
            if 'ok' not in mo:
                return f'impl ok {r[1]} model {mo}'
            mv = [u2f(x) for x in mo['ok']]
            p = q[3]
            scale = 0.0
            if ref.usable(p):
                fl = q[0] * self.impl.M2FL
                try:
                    cs, _ = ref.corners(p, fl, ref.resolve_mass(q[1], q[2]))
                    scale = max(abs(v) for c in cs for v in c)
                except Exception:
                    scale = 0.0
            for a, b in zip(r[1], mv):
                self.compared += 1
                if f2u(a) == f2u(b) or a == b:
                    self.bit_identical += 1
                if not close(a, b, 1e-9, 1e-9 * scale):
                    return f'impl {r[1]} model {mv}'
            return None
        if 'refused' not in mo:
            return f'impl {r} model {mo}'
        return None

    def load_clauses(self, ref: Ref, rows, st, model, mload):
        ctx = self.ctx
        case = {'kind': 'load', 'rows': rows}
        bad_grid = [p for p in PHASES if not ref.grid_complete(p)]
        bad_count = [p for p in PHASES if ref.grid_complete(p) and not ref.mass_count_ok(p)]
        if st == 'internal':
            ctx.clause_fail('incomplete_grid_refused', case, detail=f'load raised {model} (not a refusal by name)')
        if st == 'ok' and bad_grid:
            ctx.clause_fail('incomplete_grid_refused', dict(case, why=f'phase(s) {bad_grid} not a complete duplicate-free FL x mass grid'),
                            detail='accepted at load')
        elif st == 'ok' and bad_count:
            # open finding: the as-is model accepts exactly these (asis ok, intended refused)
            predicted = mload['asis'] == 'ok' and mload['intended'].startswith('refused')
            ctx.clause_fail('incomplete_grid_refused', dict(case, why=f'phase(s) {bad_count} have the wrong number of masses'),
                            finding=FINDING_LAZY if predicted else None,
                            detail='accepted at load; the phase is refused only when first evaluated')
            # the lazily refused phase must at least refuse (never return numbers)
            for p in bad_count:
                fl = ref.F[p][0]
                r = self.impl.eval(model, fl * self.impl.FL2M, 'val', ref.M[p][0], p)
                if r[0] == 'ok':
                    ctx.clause_fail('incomplete_grid_refused', {'kind': 'table', 'rows': rows, 'queries': [[fl * self.impl.FL2M, 'val', ref.M[p][0], p, 'lazy']]},
                                    detail=f'phase {p} with wrong mass count evaluates to {r[1]}')
        if st == 'ok':
            ctx.count('load:accepted')
        else:
            ctx.count('load:refused')

    def query_clauses(self, ref: Ref, model, q, r, rows):
        """property clauses on ONE implementation result"""
        ctx, impl = self.ctx, self.impl
        alt, kind, mass, p, tag = q[0], q[1], q[2], q[3], (q[4] if len(q) > 4 else '')
        case = {'kind': 'table', 'rows': rows, 'queries': [q]}
        ctx.count('q:' + tag)
        if r[0] == 'internal':
            ctx.clause_fail('outside_rejected', case, detail=f'evaluate raised {r[1]} (neither a value nor a refusal by name)')
            return
        if not ref.usable(p):
            if r[0] == 'ok':
                ctx.clause_fail('incomplete_grid_refused', case, detail=f'phase {p} absent/incomplete but evaluate returned {r[1]}')
            return
        F, M = ref.F[p], ref.M[p]
        fl = alt * impl.M2FL
        m = ref.resolve_mass(kind, mass)
        two_d = len(M) > 1
        inside_fl = F[0] <= fl <= F[-1]
        inside_m = (M[0] <= m <= M[-1]) if two_d else True
        # --- symbolic masses mean the table's extremes
        if kind in ('min', 'max'):
            r2 = impl.eval(model, alt, 'val', m, p)
            if not same_result(r, r2):
                ctx.clause_fail('min_max_are_extremes', case, detail=f"'{kind}' -> {r}, mass {m} -> {r2}")
            if two_d and inside_fl and r[0] != 'ok':
                ctx.clause_fail('min_max_are_extremes', case, detail=f"'{kind}' refused inside the altitude range: {r}")
        # --- node expressed in metres with the library's own factor
        if tag in ('node-m', 'node-d', 'node-anymass'):
            fl_node = min(F, key=lambda f: abs(f - fl))
            key = (fl_node, m if two_d else M[0])
            want = ref.by[p].get(key)
            rounding = ulp_dist(fl, fl_node) <= 16 or abs(fl - fl_node) <= 1e-300
            if want is None:
                return
            if r[0] != 'ok':
                if rounding:
                    # 1-ulp rounding of alt*METERS_TO_FL at an edge level: not an alarm; one step inward must work
                    ctx.tie_suspects += 1
                    inward = alt * (1 - 1e-13) if fl > fl_node or fl_node == F[-1] else alt * (1 + 1e-13)
                    if fl_node == F[0] and fl_node == F[-1]:
                        return
                    r3 = impl.eval(model, inward, kind, mass, p)
                    cs3, (g0, g1) = ref.corners(p, min(max(inward * impl.M2FL, F[0]), F[-1]), m)
                    sc3 = max(abs(v) for c in cs3 for v in c)
                    # moving 1e-13 (relative) inward changes the value by at most slope * step
                    tol3 = 1e-9 * sc3 + 2 * sc3 * abs(fl_node) * 4e-13 / max(g1 - g0, 1e-300) + 1e-300
                    if r3[0] != 'ok' or not all(abs(a - b) <= tol3 for a, b in zip(r3[1], want)):
                        ctx.clause_fail('node_exact_in_metres', case, detail=f'edge node refused and one step inward gives {r3}, want {want}')
                    return
                ctx.clause_fail('node_exact_in_metres', case,
                                detail=f'tabulated level {fl_node} ({alt!r} m -> FL {fl!r}) refused: {r}; row values {want}')
                return
            cs, _ = ref.corners(p, min(max(fl, F[0]), F[-1]), m)
            spread = max(abs(v) for c in cs for v in c)
            for name, a, b in zip(('tas', 'rocd', 'fuel_flow'), r[1], want):
                if not close(a, b, 1e-9, 1e-12 + 1e-10 * spread):
                    ctx.clause_fail('node_exact_in_metres', case, detail=f'{name} at tabulated level {fl_node}, mass {key[1]}: got {a!r} want {b!r} (FL computed {fl!r})')
                    return
            return
        # --- outside: rejected, never extrapolated
        if not (inside_fl and inside_m):
            if r[0] == 'ok':
                ctx.clause_fail('outside_rejected', case, detail=f'FL {fl!r} in [{F[0]},{F[-1]}]={inside_fl}, mass {m!r} in [{M[0]},{M[-1]}]={inside_m}, returned {r[1]}')
            return
        # --- inside: a value, bounded by the surrounding table values
        if r[0] != 'ok':
            ctx.clause_fail('inside_accepted', case, detail=f'state inside the table (FL {fl!r}, mass {m!r}) refused: {r}')
            return
        cs, (f0, f1) = ref.corners(p, fl, m)
        for k, name in enumerate(('tas', 'rocd', 'fuel_flow')):
            vals = [c[k] for c in cs]
            lo, hi = min(vals), max(vals)
            slack = 1e-9 * max(abs(lo), abs(hi)) + 1e-300
            if not (lo - slack <= r[1][k] <= hi + slack):
                ctx.clause_fail('bounded_by_corner_values', case, detail=f'{name}={r[1][k]!r} outside [{lo!r},{hi!r}] (cell FL {f0}..{f1})')
                return
        # --- mass is ignored where the phase table has one mass
        if not two_d and tag == 'inside':
            r2 = impl.eval(model, alt, 'val', M[0], p)
            if not same_result(r, r2):
                ctx.clause_fail('depends_only_on_alt_mass_phase', case, detail=f'single-mass phase depends on mass: {r} vs {r2}')
        # --- continuity across nodes: next to a node the value is next to the node value
        if tag == 'near-node':
            fl_node = min(F, key=lambda f: abs(f - fl))
            rn = impl.eval(model, fl_node / impl.M2FL, kind, mass, p)
            if rn[0] == 'ok':
                i = F.index(fl_node)
                width = min(F[i] - F[i - 1] if i > 0 else math.inf, F[i + 1] - F[i] if i + 1 < len(F) else math.inf)
                for k, name in enumerate(('tas', 'rocd', 'fuel_flow')):
                    allv = [abs(v[k]) for v in ref.by[p].values()]
                    sc = max(allv)
                    tolc = 1e-9 * sc + 2 * sc * (abs(fl_node) * 4e-12 + 1e-300) / width
                    if abs(r[1][k] - rn[1][k]) > tolc:
                        ctx.clause_fail('continuous', case, detail=f'{name}: {r[1][k]!r} at FL {fl!r} vs {rn[1][k]!r} at node {fl_node} (tol {tolc:.3g})')
                        return
        if tag == 'near-mass-node' and two_d:
            rn = impl.eval(model, alt, 'val', M[1], p)
            if rn[0] == 'ok':
                width = min(M[1] - M[0], M[2] - M[1])
                for k, name in enumerate(('tas', 'rocd', 'fuel_flow')):
                    sc = max(abs(v[k]) for v in ref.by[p].values())
                    tolc = 1e-9 * sc + 2 * sc * (abs(M[1]) * 4e-12) / width
                    if abs(r[1][k] - rn[1][k]) > tolc:
                        ctx.clause_fail('continuous', case, detail=f'{name}: {r[1][k]!r} at mass {m!r} vs {rn[1][k]!r} at mass node {M[1]}')
                        return

    def widen(self, ref, model, rows, diverged):
        """failing-input search around diverging queries: denser sampling of the same table, all clauses"""
        rng = self.ctx.rng
        qs = gen_queries(rng, ref, self.impl, 40)
        for q in diverged[:5]:
            for _ in range(60):
                qs.append([q[0] * (1 + float(rng.normal(0, 1e-3))), q[1], q[2] * (1 + float(rng.normal(0, 1e-3))), q[3], 'inside'])
        self.ctx.count('widened-search-queries', len(qs))
        for q in qs:
            r = self.impl.eval(model, q[0], q[1], q[2], q[3])
            self.query_clauses(ref, model, q, r, rows)

    # ---- load-only case (malformed stream)
    def run_load(self, case):
        rows = case['rows']
        ref = Ref(rows, self.tol)
        st, model = self.impl.load(rows)
        qs = case.get('queries')
        if qs is None:
            qs = gen_queries(self.ctx.rng, ref, self.impl, 3)
        if st == 'ok':
            # accepted although generated as malformed: everything it answers must still satisfy the clauses
            self.run_table({'kind': 'table', 'rows': rows, 'queries': qs}, widen=False)
        else:
            mload = self.model(self.table_ops(rows, qs))[0]
            if mload['asis'] == 'ok':
                self.ctx.diverge('load acceptance (validate)', case, f'impl={st}:{model} model={mload}')
            self.load_clauses(ref, rows, st, model, mload)
        return st

    # ---- PTF case
    def run_ptf(self, case):
        ctx, impl = self.ctx, self.impl
        p = case['ptf']
        build_performance_table, PTFData = impl.build_performance_table, impl.PTFData
        if self.tmp is None:
            self.tmp = tempfile.mkdtemp(prefix='c06_')
        path = Path(self.tmp) / 'case.PTF'
        path.write_text(render_ptf(p))
        try:
            ptf = PTFData.load(path)
            table = build_performance_table(ptf)
        except Exception as e:
            ctx.clause_fail('ptf_rows_reproduced', case, detail=f'well-formed PTF not parsed/built: {type(e).__name__}: {e}')
            return
        cols = table['cols']
        ix = [cols.index(c) for c in ('fl', 'mass', 'tas', 'rocd', 'fuel_flow')]
        rows = [[float(r[i]) for i in ix] for r in table['data']]
        # model: build from the structured numbers
        op = {'op': 'c06.build', 'lo': f2u(p['lo']), 'nom': f2u(p['nom']), 'hi': f2u(p['hi']),
              'climb': [[f2u(r['fl'])] + [f2u(x) for x in r['climb']] for r in p['rows'] if 'climb' in r],
              'cruise': [[f2u(r['fl'])] + [f2u(x) for x in r['cruise']] for r in p['rows'] if 'cruise' in r],
              'descent': [[f2u(r['fl'])] + [f2u(x) for x in r['descent']] for r in p['rows'] if 'descent' in r]}
        mrows = [[u2f(x) for x in r] for r in self.model([op])[0]]
        # row order of the generated file is irrelevant to the property: compare as multisets
        srows, mrows = sorted(rows), sorted(mrows)
        if len(mrows) != len(srows) or any(a != b for ra, rb in zip(srows, mrows) for a, b in zip(ra, rb)):
            bad = next((i for i, (ra, rb) in enumerate(zip(srows, mrows)) if any(a != b for a, b in zip(ra, rb))), None)
            ctx.diverge('PTFData.load + build_performance_table vs buildRows', case,
                        f'{len(rows)} vs {len(mrows)} rows; first differing row {bad}: impl {srows[bad] if bad is not None else None} model {mrows[bad] if bad is not None and bad < len(mrows) else None}')
        if (ptf.low_mass, ptf.nominal_mass, ptf.high_mass) != (p['lo'], p['nom'], p['hi']):
            ctx.clause_fail('ptf_rows_reproduced', case, detail=f'masses parsed {(ptf.low_mass, ptf.nominal_mass, ptf.high_mass)}')
        st, model = impl.load(rows)
        ref = Ref(rows, self.tol)
        K, FP, MS = float(impl.units.KNOTS_TO_MPS), float(impl.units.FPM_TO_MPS), float(impl.units.MINUTES_TO_SECONDS)
        masses = {'lo': float(p['lo']), 'nom': float(p['nom']), 'hi': float(p['hi'])}
        qs, wants = [], []
        for r in p['rows']:
            alt = r['fl'] * impl.FL2M
            c = r['climb']
            for j, mk in enumerate(('lo', 'nom', 'hi')):
                qs.append([alt, 'val', masses[mk], 'climb', 'ptf'])
                wants.append((c[0] * K, c[1 + j] * FP, c[4] / MS))
            if 'cruise' in r:
                z = r['cruise']
                for j, mk in enumerate(('lo', 'nom', 'hi')):
                    qs.append([alt, 'val', masses[mk], 'cruise', 'ptf'])
                    wants.append((z[0] * K, 0.0, z[1 + j] / MS))
            d = r['descent']
            qs.append([alt, 'val', masses['nom'], 'descend', 'ptf'])
            wants.append((d[0] * K, -d[1] * FP, d[2] / MS))
        mload, _, mo = self.model(self.table_ops(rows, qs))
        if (st == 'ok') != (mload['asis'] == 'ok'):
            ctx.diverge('load acceptance (validate)', {'kind': 'load', 'rows': rows}, f'impl={st} model={mload}')
        self.load_clauses(ref, rows, st, model, mload)
        zero_climb = any(x == 0 for r in p['rows'] for x in r['climb'][1:4])
        if st != 'ok':
            if not zero_climb:
                ctx.clause_fail('ptf_rows_reproduced', case, detail=f'model file generated from a well-formed PTF is refused: {model}')
            ctx.count('ptf:refused(zero climb rate)' if zero_climb else 'ptf:refused')
            return
        ctx.count('ptf:loaded')
        res = [impl.eval(model, *q[:4]) for q in qs]
        for q, r, w, m in zip(qs, res, wants, mo):
            d = self.compare_result(ref, q, r, m)
            if d:
                ctx.diverge('evaluate vs model (ptf)', {'kind': 'table', 'rows': rows, 'queries': [q]}, d)
            fl = q[0] * impl.M2FL
            F = ref.F[q[3]]
            if r[0] != 'ok':
                fl_node = min(F, key=lambda f: abs(f - fl)) if F else None
                if fl_node is not None and ulp_dist(fl, fl_node) <= 16 and fl_node in (F[0], F[-1]):
                    ctx.tie_suspects += 1
                    continue
                ctx.clause_fail('ptf_rows_reproduced', dict(case, query=q), detail=f'PTF row at FL {q[0] / impl.FL2M:g} {q[3]} mass {q[2]}: {r}, want {w}')
                break
            if not all(close(a, b, 1e-9, 1e-12 + 1e-10 * max(abs(x) for x in w)) for a, b in zip(r[1], w)):
                ctx.clause_fail('ptf_rows_reproduced', dict(case, query=q), detail=f'PTF row at FL {q[0] / impl.FL2M:g} {q[3]} mass {q[2]}: got {r[1]}, want {w}')
                break

    def run_case(self, case):
        k = case.get('kind')
        if k == 'table':
            self.run_table(case)
        elif k == 'load':
            self.run_load(case)
        elif k == 'ptf':
            self.run_ptf(case)
        elif k == 'sequence':
            # several cases in ONE process, in order (failures that need state left behind by earlier tables)
            for c in case['cases']:
                self.run_case(c)
        else:
            raise ValueError(f'unknown case kind {k}')

    def cleanup(self):
        if self.tmp:
            shutil.rmtree(self.tmp, ignore_errors=True)
            self.tmp = None
        fd = getattr(self.impl, 'file_dir', None)
        if fd:
            shutil.rmtree(fd, ignore_errors=True)
            self.impl.file_dir = None


def same_result(a, b):
    if a[0] != b[0]:
        return False
    if a[0] != 'ok':
        return True
    return all(f2u(x) == f2u(y) or x == y for x, y in zip(a[1], b[1]))


def case_key(case):
    import hashlib

    return hashlib.sha1(json.dumps(case, sort_keys=True, default=str).encode()).hexdigest()[:16]


def install_local_findings(ctx):
    """findings_C06.json is the fragment that is merged into known_findings.json; honour it when not merged yet."""
    p = ROOT / 'findings_C06.json'
    if p.exists():
        for f in json.loads(p.read_text()):
            if f.get('property') == PID and f['id'] not in ctx.findings:
                ctx.findings[f['id']] = f
                if f.get('status') == 'open':
                    ctx.open_findings[f['id']] = f


def check_constants(ctx, impl):
    c = ctx.driver.outs([{'op': 'c06.consts'}])[0]
    u = impl.units
    for name in ('METERS_TO_FL', 'FL_TO_METERS', 'KNOTS_TO_MPS', 'FPM_TO_MPS', 'MINUTES_TO_SECONDS'):
        if f2u(float(getattr(u, name))) != int(c[name]):
            ctx.diverge('regenerated constant', {'kind': 'const', 'name': name}, f'impl {float(getattr(u, name))!r} model {u2f(c[name])!r}')


def _replays_in_isolation(case) -> bool:
    """does the stored case fail again in a fresh process?"""
    import subprocess
    import sys

    d = tempfile.mkdtemp(prefix='c06_rp_')
    try:
        f = Path(d) / 'case.json'
        f.write_text(json.dumps({'case': case}, default=str))
        r = subprocess.run([sys.executable, str(ROOT / 'check'), PID, '--replay', str(f)], capture_output=True, text=True,
                           env=dict(os.environ), timeout=600)
        return any(ln.startswith('VIOLATION') and 'no-failing-input-found' not in ln for ln in r.stdout.split('\n'))
    finally:
        shutil.rmtree(d, ignore_errors=True)


def confirm_replay(ctx, run):
    """make sure the violation that will be reported first has a replay that fails by itself (fresh process);
    failures that need state left behind by other tables get the tables that ran before them prepended."""
    if not ctx.violations:
        return
    for i, v in enumerate(ctx.violations[:4]):
        if _replays_in_isolation(v['case']):
            ctx.violations.insert(0, ctx.violations.pop(i))
            return
    v = ctx.violations[0]
    tab = v.get('tab')
    if tab is not None and tab > 0:
        pre = [run.table_log[0]] + ([run.table_log[tab - 1]] if tab > 1 else [])
        this = run.table_log[tab]
        seq = {'kind': 'sequence', 'cases': pre + [this], 'why': 'fails only after other tables were evaluated in the same process'}
        if _replays_in_isolation(seq):
            v['case'] = seq
            return
    ctx.notes.append('first violation did not replay in a fresh process (state dependence not captured)')


def main(ctx) -> int:
    ctx.proofs()
    aeic_setup()
    install_local_findings(ctx)
    impl = Impl()
    run = Runner(ctx, impl)
    rng = ctx.rng
    try:
        check_constants(ctx, impl)
        # 1. corpus first
        cdir = CORPUS_DIR / PID
        for f in sorted(cdir.glob('*.json')) if cdir.exists() else []:
            case = json.loads(f.read_text())
            case = case.get('case', case)
            run.run_case(case)
            ctx.case('corpus:' + f.name, True)
            ctx.count('corpus')
        import time as _t
        t1 = _t.time()
        # 2. valid tables x queries
        n_tab = ctx.scale(quick=110, thorough=2200)
        n_rand = ctx.scale(quick=6, thorough=10)
        CH = 40
        for c0 in range(0, n_tab, CH):
            cases = []
            for i in range(c0, min(n_tab, c0 + CH)):
                rows = gen_table(rng, impl.tol)
                cases.append({'kind': 'table', 'rows': rows, 'queries': gen_queries(rng, Ref(rows, impl.tol), impl, n_rand)})
            if len(ctx.violations) >= 200:
                ctx.notes.append('generation cut short: 200 clause failures already recorded')
                break
            run.prefetch(cases)
            for case in cases:
                run.run_table(case)
                rows, qs = case['rows'], case['queries']
                for q in qs:
                    ctx.case(case_key([rows[:3], q]), q[4] != 'inside')
                if len(ctx.samples) < 2:
                    ctx.samples.append({'rows': rows[:4], 'n_rows': len(rows), 'queries': qs[:3]})
        ctx.extra['t_tables'] = round(_t.time() - t1, 1); t1 = _t.time()
        # 3. malformed tables
        n_bad = ctx.scale(quick=500, thorough=10000)
        for c0 in range(0, n_bad, 100):
            cases = []
            for i in range(c0, min(n_bad, c0 + 100)):
                rows, why = gen_malformed(rng, impl.tol)
                if rows is not None:
                    cases.append({'kind': 'load', 'rows': rows, 'why': why, 'queries': gen_queries(rng, Ref(rows, impl.tol), impl, 3)})
            if len(ctx.violations) >= 200:
                break
            run.prefetch(cases)
            for case in cases:
                st = run.run_load(case)
                ctx.count(f"malformed:{case['why']}:{st}")
                ctx.case(case_key(case['rows']), True, sample={'why': case['why'], 'rows': case['rows'][:3], 'impl': st} if len(ctx.samples) < 4 else None)
        ctx.extra['t_malformed'] = round(_t.time() - t1, 1); t1 = _t.time()
        # 4. PTF files
        n_ptf = ctx.scale(quick=60, thorough=1200)
        for i in range(n_ptf):
            if len(ctx.violations) >= 200:
                break
            p = gen_ptf(rng)
            run.run_ptf({'kind': 'ptf', 'ptf': p})
            ctx.case(case_key(p), True, sample={'ptf_rows': p['rows'][:2], 'masses': [p['lo'], p['nom'], p['hi']]} if i < 1 else None)
        ctx.extra['t_ptf'] = round(_t.time() - t1, 1)
        confirm_replay(ctx, run)
        ctx.extra['float_values_compared'] = run.compared
        ctx.extra['float_values_bit_identical'] = run.bit_identical
    finally:
        run.cleanup()
        try:
            from AEIC.config import Config

            Config.reset()
        except Exception:
            pass
    return ctx.finish(RULE, TRUSTED, ASSUME)


def replay(ctx, path) -> int:
    """re-run one stored case (a corpus file or a replay file written by ctx.finish) against the implementation"""
    aeic_setup()
    install_local_findings(ctx)
    impl = Impl()
    run = Runner(ctx, impl)
    data = json.loads(Path(path).read_text())
    if 'first' in data:
        data = data['first']
    case = data.get('case', data)
    try:
        if case.get('kind') in ('table', 'load', 'ptf', 'sequence'):
            run.run_case(case)
        else:
            print(f'[{PID}] replay file names no concrete input: {json.dumps(data)[:400]}')
            return 1
    finally:
        run.cleanup()
        try:
            from AEIC.config import Config

            Config.reset()
        except Exception:
            pass
    for v in ctx.violations[:5]:
        print(f"[{PID}] replay: clause '{v['clause']}' FAILS on the implementation: {v['detail']}")
    for k, hits in ctx.known_hits.items():
        print(f"[{PID}] replay: known finding {k}: {hits[0]['detail']}")
    for d in ctx.divergences[:5]:
        print(f"[{PID}] replay: model/implementation differ ({d['correspondence']}): {d['detail']}")
    if ctx.violations:
        print(f'VIOLATION property={PID} replay={path}')
        return 1
    if ctx.divergences:
        print(f'VIOLATION property={PID} replay={path} no-failing-input-found')
        return 1
    print(f'[{PID}] replay: all clauses hold, model agrees')
    return 0
