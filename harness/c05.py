"""C05 — gridded pieces land in the cells the path actually crosses. See harness/gridlib.py and design_notes/C05.md."""
from harness import gridlib


def main(ctx):
    return gridlib.run_property(ctx, 'C05')


def replay(ctx, path):
    return gridlib.run_replay(ctx, 'C05', path)
