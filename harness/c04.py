"""C04 — gridding conserves every integrated quantity. See harness/gridlib.py and design_notes/C04.md."""
from harness import gridlib


def main(ctx):
    return gridlib.run_property(ctx, 'C04')


def replay(ctx, path):
    return gridlib.run_replay(ctx, 'C04', path)
