"""C12 — emission-index and atmosphere functions follow their cited methods.

Correspondence + clause check for the Lean models of `lean/AeicModel/EI.lean`
(theorems: `lean/AeicProofs/Properties/C12.lean`).

For this property the Lean model *is* the independent transcription of the published equations, so
  * impl vs the **published** variant of the model  -> clause `<fn>_follows_cited_method` (a concrete failing input),
  * impl vs the **as-is** variant (differs only in the BFFM2 humidity reference) -> model validation (divergence),
  * intrinsic clauses (finite, non-negative, linear scaling, inverse, monotone, conservation, clamping, reference
    conditions) are evaluated on the implementation output alone.
Every case is a JSON-serialisable dict `{'fn': <stream>, ...inputs...}`; `replay` re-runs one against the real code.
"""
from __future__ import annotations

import json
import math
import re
from pathlib import Path

import warnings

import numpy as np

from harness.common import CORPUS_DIR, ROOT, aeic_setup, close, f2u, fs2u, u2f, u2fs

PID = 'C12'
F_HUM = 'C12-bffm2-humidity-reference'
F_MEEM = 'C12-meem-pressure-coefficient-unbounded'
F_OVF = 'C12-loglog-fit-overflows-for-near-equal-flows'
RTOL = 1e-9

RULE = ('cases = (stream, certification data set, vector of evaluation points); certification sets are drawn from '
        'realistic-monotone / non-monotone / equal-flow / branch-targeted (HC-CO rules a,b,c,none) families, evaluation '
        'points cover 0..1.3x take-off flow incl. exact thresholds and calibration flows, altitudes 0..25 km incl. the '
        'tropopause and its float neighbours, Mach 0..0.95; a case is non-trivial when it leaves the default branch '
        '(stratosphere, clamped/low-thrust HC-CO, non-approach category, reconstruction in MEEM, skipped SN in SCOPE11); '
        'distinctness = hash of the inputs')
TRUSTED = ['Lean 4.33 kernel', 'axioms propext/Classical.choice/Quot.sound', 'Mathlib v4.33',
           'correspondence harness harness/c12.py', 'constants translator harness/common/translator.py',
           'hand transcription of the published equations in lean/AeicModel/EI.lean (auditable against the cited papers)',
           'np.polyfit(deg=1) re-modelled as the closed-form least-squares line; np.interp re-modelled',
           'published ISA table values (ISO 2533) hard-coded in harness/c12.py']
ASSUME = ['IEEE rounding is not modelled: theorems are over R; impl vs Float model compared with rtol 1e-9 '
          '(1e-7 for the polyfit path when the calibration flows span < 3 %)',
          'certification data strictly positive (the property quantifies over positive data sets)',
          'NOx with all four calibration flows equal (np.polyfit is rank-deficient there): only finiteness and sign are required, the values are not compared',
          'HC/CO evaluation points within 1e-12 (relative, log space) of the segment intercept are tie suspects']

CATS = ['idle', 'approach', 'climb', 'takeoff']
# ISO 2533 / ICAO Doc 7488 standard atmosphere (geopotential altitude m, K, Pa), 6 significant digits
ISA_TABLE = [(0.0, 288.15, 101325.0), (1000.0, 281.65, 89874.6), (2000.0, 275.15, 79495.2), (5000.0, 255.65, 54019.9),
             (8000.0, 236.15, 35599.8), (10000.0, 223.15, 26436.3), (11000.0, 216.65, 22632.1),
             (12000.0, 216.65, 19330.4), (15000.0, 216.65, 12044.6), (18000.0, 216.65, 7504.84),
             (20000.0, 216.65, 5474.89)]


# --------------------------------------------------------------------------- helpers
def _fl(xs):
    return [float(x) for x in np.asarray(xs, dtype=float).ravel()]


def _key(case):
    return json.dumps(case, sort_keys=True, default=str)


def _finite_nonneg(xs):
    xs = np.asarray(xs, dtype=float)
    return bool(np.all(np.isfinite(xs)) and np.all(xs >= 0.0))


def _first_bad(a, b, rtol=RTOL, atol=0.0):
    """index of the first element where a and b are not close, else None"""
    a = _fl(a)
    b = _fl(b)
    if len(a) != len(b):
        return -1
    for i, (x, y) in enumerate(zip(a, b)):
        if not close(x, y, rtol, atol):
            return i
    return None


def load_fragment_findings(ctx):
    """findings_C12.json is the fragment that gets merged into known_findings.json; honour it directly as well,
    so the check behaves identically before and after the merge (harness/common is not edited)."""
    p = ROOT / 'findings_C12.json'
    if not p.exists():
        return
    data = json.loads(p.read_text())
    items = data.get('findings', data) if isinstance(data, dict) else data
    for f in items:
        if f.get('property') != PID:
            continue
        ctx.findings.setdefault(f['id'], f)
        if f.get('status') == 'open':
            ctx.open_findings.setdefault(f['id'], f)


class Impl:
    """lazy imports of the implementation under test"""

    def __init__(self):
        from AEIC.config import config
        from AEIC.emissions.ei.hcco import EI_HCCO
        from AEIC.emissions.ei.nox import BFFM2_EINOx, NOx_speciation
        from AEIC.emissions.ei.pmnvol import PMnvol_MEEM, calculate_PMnvolEI_scope11
        from AEIC.emissions.ei.pmvol import EI_PMvol_FOA3, EI_PMvol_FuelFlow
        from AEIC.emissions.ei.sox import EI_SOx
        from AEIC.emissions.types import AtmosphericState
        from AEIC.emissions.utils import get_SLS_equivalent_fuel_flow, get_thrust_cat_cruise
        from AEIC.performance.edb import EDBEntry
        from AEIC.performance.types import ThrustMode, ThrustModeArray, ThrustModeValues
        from AEIC.types import Fuel
        from AEIC.utils import standard_atmosphere as sa

        self.__dict__.update(locals())
        import tomllib

        with open(config.file_location('fuels/conventional_jetA.toml'), 'rb') as f:
            self.fuel0 = Fuel.model_validate(tomllib.load(f))

    def tmv(self, xs):
        return self.ThrustModeValues(*[float(x) for x in xs])


# --------------------------------------------------------------------------- generators
def gen_cal(rng, family):
    """four calibration fuel flows [kg/s]"""
    if family == 'mono':
        i = float(rng.uniform(0.03, 0.35))
        a = i * float(rng.uniform(2.2, 4.0))
        c = a * float(rng.uniform(1.8, 3.5))
        t = c * float(rng.uniform(1.05, 1.35))
        return [i, a, c, t]
    if family == 'narrow':  # span of a few percent (ill-conditioned fit)
        i = float(rng.uniform(0.1, 1.0))
        return [i, i * 1.008, i * 1.017, i * 1.025]
    if family == 'nonmono':
        while True:  # idle / approach flows either clearly distinct or (other families) exactly equal: a 1 % gap with
            c = _fl(10 ** rng.uniform(-1.5, 0.6, 4))  # unrelated EIs gives log-log slopes of ~100 and legitimate overflow
            if abs(math.log10(c[1] / c[0])) > 0.1:
                return c
    if family == 'equal01':
        c = gen_cal(rng, 'mono')
        c[1] = c[0]
        return c
    if family == 'equal12':
        c = gen_cal(rng, 'mono')
        c[2] = c[1]
        return c
    if family == 'equal3':
        c = gen_cal(rng, 'mono')
        return [c[0], c[0], c[0], c[3]]
    if family == 'near01':  # idle and approach within the isclose tolerance in log space
        c = gen_cal(rng, 'mono')
        c[1] = c[0] * (1.0 + 1e-9)
        return c
    raise ValueError(family)


def gen_eval_flows(rng, cal, n):
    """evaluation fuel flows from zero to above take-off, with the exact thresholds / calibration flows"""
    hi = 1.3 * max(cal)
    xs = list(rng.uniform(0.0, hi, n))
    xs += list(10 ** rng.uniform(-3, math.log10(hi), max(2, n // 4)))
    xs += [0.0, cal[0], cal[1], cal[2], cal[3], (cal[0] + cal[1]) / 2.0, (cal[1] + cal[2]) / 2.0,
           np.nextafter((cal[0] + cal[1]) / 2.0, 1e9), np.nextafter((cal[1] + cal[2]) / 2.0, 1e9),
           0.5 * cal[0], 0.999 * cal[0], 1.3 * cal[3]]
    return _fl(xs)


def gen_ambient(rng, impl, n, perturb=True):
    h = rng.uniform(0.0, 25000.0, n)
    k = min(n, 4)
    h[:k] = np.array([0.0, 11000.0, 25000.0, 12500.0])[:k]
    T = impl.sa.temperature_at_altitude_isa_bada4(h)
    P = np.array(impl.sa.pressure_at_altitude_isa_bada4(h))
    if perturb:
        T = T + rng.uniform(-15.0, 15.0, n) * (rng.random(n) < 0.3)
    return _fl(h), _fl(T), _fl(P)


def gen_hc_ei(rng, cal, target):
    """HC/CO certification indices aimed at one branch of the SAGE rules (not guaranteed; the model reports the branch)"""
    lf = np.log10(cal)
    if target == 'flat':  # idle == approach index -> slope exactly 0
        e0 = float(10 ** rng.uniform(-1, 2))
        return [e0, e0, float(10 ** rng.uniform(-2, 1.5)), float(10 ** rng.uniform(-2, 1.5))]
    if target == 'pos':
        e0 = float(10 ** rng.uniform(-1, 1))
        return [e0, e0 * float(rng.uniform(1.05, 4)), float(10 ** rng.uniform(-2, 2.5)), float(10 ** rng.uniform(-2, 2.5))]
    e0 = float(10 ** rng.uniform(0, 2.2))
    e1 = e0 / float(rng.uniform(1.5, 40))
    d = lf[1] - lf[0]
    slope = (math.log10(e1) - math.log10(e0)) / d if abs(d) > 1e-6 else -1.0
    if target == 'a':      # intersection beyond the climb flow: high-power level far below the line at climb
        lvl = math.log10(e0) + slope * (lf[2] - lf[0]) - float(rng.uniform(0.2, 1.5))
    elif target == 'b':    # intersection before the approach flow: level above the approach index
        lvl = math.log10(e1) + float(rng.uniform(0.05, 1.0))
    else:                  # 'none': intersection between approach and climb flows
        lvl = math.log10(e0) + slope * (float(rng.uniform(lf[1], max(lf[1], lf[2]))) - lf[0])
    g = 10 ** min(max(lvl, -3.0), 3.0)
    r = float(rng.uniform(0.6, 1.6))
    return [e0, e1, float(g * r), float(g / r)]


# --------------------------------------------------------------------------- streams: each returns list of cases
def cases_isa(rng, n):
    h = list(rng.uniform(0.0, 25000.0, n))
    h += [0.0, 11000.0, float(np.nextafter(11000.0, 0)), float(np.nextafter(11000.0, 1e9)), 25000.0, 10999.999, 11000.001,
          20000.0, 24999.999] + [t[0] for t in ISA_TABLE]
    return [{'fn': 'isa', 'h': _fl(h)}]


def cases_sls(rng, impl, n):
    out = []
    for k in range(max(1, n // 60)):
        m = 60
        h, T, P = gen_ambient(rng, impl, m)
        ff = rng.uniform(0.0, 3.0, m)
        ff[0] = 0.0
        M = rng.uniform(0.0, 0.95, m)
        M[1] = 0.0
        M[2] = 0.95
        out.append({'fn': 'sls', 'ff': _fl(ff), 'P': P, 'T': T, 'M': _fl(M), 'neng': int(rng.integers(1, 5))})
    return out


CAL_FAMILIES = ['mono', 'mono', 'mono', 'nonmono', 'equal01', 'equal12', 'equal3', 'narrow', 'near01']


def cases_cat(rng, n):
    out = []
    for k in range(n):
        fam = CAL_FAMILIES[k % len(CAL_FAMILIES)]
        cal = gen_cal(rng, fam)
        out.append({'fn': 'cat', 'family': fam, 'cal': cal, 'ff': gen_eval_flows(rng, cal, 12)})
    return out


def cases_nox(rng, impl, n):
    out = []
    for k in range(n):
        fam = CAL_FAMILIES[k % len(CAL_FAMILIES)]
        cal = gen_cal(rng, fam)
        if k % 5 == 0:  # certification data exactly on a log-log line
            A = float(10 ** rng.uniform(0.5, 1.6))
            B = float(rng.uniform(0.1, 0.9))
            ei = [A * c ** B for c in cal]
        elif fam == 'narrow':  # keep the log-log slope physical (|slope| < ~3), else 10**x overflows legitimately
            ei = _fl(float(10 ** rng.uniform(0.0, 1.5)) * (1.0 + rng.uniform(-0.03, 0.03, 4)))
        else:
            ei = _fl(10 ** rng.uniform(-1.0, 2.0, 4))
        if k % 13 == 5:  # calibration flows within 0.3 % of each other, unrelated certification indices: slopes of hundreds
            fam = 'near_equal_extreme'
            cal = [cal[0] * (1.0 + 0.001 * j) for j in range(4)]
            ei = _fl(10 ** rng.uniform(-1.0, 2.0, 4))
        if k % 11 == 7:  # all four calibration flows equal (positive): the fit is undetermined, the result must stay finite
            fam, cal = 'equal_all', [cal[0]] * 4
        ff = gen_eval_flows(rng, cal, 14)
        h, T, P = gen_ambient(rng, impl, len(ff))
        out.append({'fn': 'nox', 'family': fam, 'cal': cal, 'ei': ei, 'ff': ff, 'T': T, 'P': P,
                    'c': float(10 ** rng.uniform(-1, 1))})
    return out


def cases_hcco(rng, impl, n):
    out = []
    targets = ['none', 'a', 'b', 'pos', 'flat', 'none', 'a', 'b']
    for k in range(n):
        fam = CAL_FAMILIES[(k // len(targets)) % len(CAL_FAMILIES)] if k % 3 else 'mono'
        cal = gen_cal(rng, fam)
        tgt = targets[k % len(targets)]
        if fam == 'narrow':  # keep the slanted-segment slope physical, else 10**x overflows legitimately
            e0 = float(10 ** rng.uniform(-1, 2))
            ei = [e0, e0 * float(rng.uniform(0.97, 1.03)), e0 * float(rng.uniform(0.2, 1.2)), e0 * float(rng.uniform(0.2, 1.2))]
        else:
            ei = gen_hc_ei(rng, cal, tgt) if k % 11 else _fl(10 ** rng.uniform(-2, 2.3, 4))
        if k % 17 == 9:  # idle and approach flows within 0.1 % of each other, indices decades apart: a slanted segment of slope ~ -1000s
            fam = 'near_equal_extreme'
            cal = [cal[0], cal[0] * 1.001, max(cal[2], cal[0] * 1.5), max(cal[3], cal[0] * 2.0)]
            e0 = float(10 ** rng.uniform(0.5, 2.0))
            ei = [e0, e0 * 1e-3, e0 * 1e-4, e0 * 1e-4]
        ff = gen_eval_flows(rng, cal, 14)
        h, T, P = gen_ambient(rng, impl, len(ff))
        out.append({'fn': 'hcco', 'family': fam, 'target': tgt, 'cal': cal, 'ei': ei, 'ff': ff, 'T': T, 'P': P,
                    'c': float(10 ** rng.uniform(-1, 1))})
    return out


def cases_sox(rng, n):
    s = list(rng.uniform(0.0, 3000.0, n)) + [0.0, 600.0, 3000.0]
    y = list(rng.uniform(0.0, 0.1, n)) + [0.0, 0.02, 1.0]
    return [{'fn': 'sox', 's': _fl(s), 'y': _fl(y)}]


def cases_pmvol(rng, n):
    thr = list(rng.uniform(0.0, 110.0, n)) + [7.0, 30.0, 85.0, 100.0, 6.9, 0.0, 100.1, 57.5, 92.5]
    hc = list(10 ** rng.uniform(-3, 2, n)) + [1.0, 2.0, 3.0, 4.0, 0.5, 0.0, 0.1, 7.0, 11.0]
    return [{'fn': 'foa3', 'thr': _fl(thr), 'hc': _fl(hc)},
            {'fn': 'pmvolff', 'cat': [int(x) for x in rng.integers(0, 4, 24)] + [0, 1, 2, 3]}]


def cases_scope11(rng, n):
    out = []
    for k in range(n):
        sn = rng.uniform(0.05, 60.0, 4)
        if k % 4 == 0:
            sn[int(rng.integers(4))] = -1.0
        if k % 5 == 0:
            sn[int(rng.integers(4))] = 0.0
        if k % 7 == 0:
            sn[int(rng.integers(4))] = 40.0
        out.append({'fn': 'scope11', 'sn': _fl(sn), 'etype': int(k % 3), 'bpr': float(rng.uniform(0.0, 12.0))})
    return out


def cases_meem(rng, impl, n):
    out = []
    kinds = [(None, 0), (-1.0, 0), (0.575, 1), (0.925, 2)]
    for k in range(n):
        sn = rng.uniform(1.0, 40.0, 4)
        mass = 10 ** rng.uniform(-1, 2.5, 4) if k % 2 else -np.ones(4)
        num = 10 ** rng.uniform(13, 16, 4) if k % 3 else -np.ones(4)
        km = kinds[int(rng.integers(4))]
        kn = kinds[int(rng.integers(4))]
        m = 10
        alt = np.cumsum(rng.choice([-1.0, 0.0, 1.0], m) * rng.uniform(0.0, 3500.0, m))
        alt = np.clip(alt - alt.min() + float(rng.uniform(0, 2000)), 0.0, 25000.0)
        if k % 5 == 0:
            alt = np.clip(alt, 0.0, 2500.0)
        T = impl.sa.temperature_at_altitude_isa_bada4(alt)
        P = np.array(impl.sa.pressure_at_altitude_isa_bada4(alt))
        out.append({'fn': 'meem', 'sn': _fl(sn), 'mass': _fl(mass), 'num': _fl(num), 'mtf': bool(k % 2 == 0),
                    'bpr': float(rng.uniform(0.0, 12.0)), 'pr': float(rng.uniform(5.0, 45.0)),
                    'massMax': float(10 ** rng.uniform(-1, 2.5)), 'numMax': float(10 ** rng.uniform(13, 16)),
                    'massMaxThrust': km[0], 'numMaxThrust': kn[0], 'alt': _fl(alt), 'T': _fl(T), 'P': _fl(P),
                    'M': _fl(rng.uniform(0.0, 0.95, m)), 'c': float(10 ** rng.uniform(-1, 1))})
    return out


# --------------------------------------------------------------------------- model ops
def _kind(x):
    if x is None or (isinstance(x, float) and (math.isnan(x) or x < 0)):
        return 0
    return 1 if abs(x - 0.575) < 1e-6 else 2


def model_ops(case):
    fn = case['fn']
    if fn == 'isa':
        return [{'op': 'c12.isa', 'h': fs2u(case['h'])}]
    if fn == 'sls':
        return [{'op': 'c12.sls', 'ff': fs2u(case['ff']), 'P': fs2u(case['P']), 'T': fs2u(case['T']),
                 'M': fs2u(case['M']), 'neng': f2u(float(case['neng']))}]
    if fn == 'cat':
        return [{'op': 'c12.cat', 'ff': fs2u(case['ff']), 'cal': fs2u(case['cal'])}]
    if fn == 'nox':
        base = {'op': 'c12.nox', 'ff': fs2u(case['ff']), 'ei': fs2u(case['ei']), 'cal': fs2u(case['cal']),
                'T': fs2u(case['T']), 'P': fs2u(case['P'])}
        return [dict(base, variant='asis'), dict(base, variant='published')]
    if fn == 'hcco':
        return [{'op': 'c12.hcco', 'ff': fs2u(case['ff']), 'ei': fs2u(case['ei']), 'cal': fs2u(case['cal']),
                 'T': fs2u(case['T']), 'P': fs2u(case['P'])}]
    if fn == 'sox':
        return [{'op': 'c12.sox', 's': fs2u(case['s']), 'y': fs2u(case['y'])}]
    if fn == 'foa3':
        return [{'op': 'c12.foa3', 'thr': fs2u(case['thr']), 'hc': fs2u(case['hc'])}]
    if fn == 'pmvolff':
        return [{'op': 'c12.pmvolff', 'cat': case['cat']}]
    if fn == 'scope11':
        return [{'op': 'c12.scope11', 'sn': fs2u(case['sn']), 'etype': case['etype'], 'bpr': f2u(case['bpr'])}]
    if fn == 'meem':
        base = {'op': 'c12.meem', 'sn': fs2u(case['sn']), 'mass': fs2u(case['mass']), 'num': fs2u(case['num']),
                 'mtf': case['mtf'], 'bpr': f2u(case['bpr']), 'pr': f2u(case['pr']), 'massMax': f2u(case['massMax']),
                 'numMax': f2u(case['numMax']), 'kindM': _kind(case['massMaxThrust']),
                 'kindN': _kind(case['numMaxThrust']), 'alt': fs2u(case['alt']), 'T': fs2u(case['T']),
                 'P': fs2u(case['P']), 'M': fs2u(case['M'])}
        return [dict(base, variant='asis'), dict(base, variant='intended')]
    raise ValueError(fn)


# --------------------------------------------------------------------------- checks (impl run + clauses)
class Rep:
    """collects outcomes of one case and forwards them to ctx (or prints them in replay mode)"""

    def __init__(self, ctx, case):
        self.ctx = ctx
        self.case = case
        self.fails = []

    def clause(self, name, ok, detail='', finding=None):
        if ok:
            return True
        detail = re.sub(r'np\.float64\(([^()]*)\)', r'\1', detail)
        self.fails.append((name, detail, finding))
        self.ctx.clause_fail(name, self.case, finding=finding, detail=detail)
        return False

    def diverge(self, name, ok, detail=''):
        if ok:
            return True
        detail = re.sub(r'np\.float64\(([^()]*)\)', r'\1', detail)
        self.fails.append(('correspondence:' + name, detail, None))
        self.ctx.diverge(name, self.case, detail)
        return False


def _cmp(rep, clause, impl_vals, model_vals, rtol=RTOL, atol=0.0, finding=None, as_clause=True, what=''):
    i = _first_bad(impl_vals, model_vals, rtol, atol)
    if i is None:
        return True
    a = _fl(impl_vals)
    b = _fl(model_vals)
    det = (f'{what} index {i}: impl={a[i]!r} model={b[i]!r}' if i >= 0 else f'{what} lengths {len(a)} vs {len(b)}')
    if as_clause:
        return rep.clause(clause, False, det, finding)
    return rep.diverge(clause, False, det)


def check_isa(ctx, impl, case, outs):
    rep = Rep(ctx, case)
    sa = impl.sa
    h = np.array(case['h'])
    o = outs[0]
    T = sa.temperature_at_altitude_isa_bada4(h)
    p = np.array(sa.pressure_at_altitude_isa_bada4(h))
    a = sa.speed_of_sound_at_altitude(h)
    rho = sa.calculate_air_density(p, T)
    mT, mp = u2fs(o['T']), u2fs(o['p'])
    _cmp(rep, 'isa_follows_cited_method', T, mT, what='temperature')
    _cmp(rep, 'isa_follows_cited_method', p, mp, what='pressure')
    _cmp(rep, 'isa_follows_cited_method', rho, u2fs(o['rho']), what='density')
    # speed of sound is sqrt(kappa R T); the code rounds R to 287.05 (5e-6 relative): the as-is model and the
    # kappa*R_air form are both accepted exactly, anything within rtol 1e-5 of the ideal-gas value passes the clause
    ref_a = np.sqrt(1.4 * 287.05287 * np.asarray(T, dtype=float))
    if _first_bad(a, ref_a, RTOL) is not None:
        _cmp(rep, 'speed_of_sound_model', a, u2fs(o['a']), as_clause=False, what='speed of sound')
    _cmp(rep, 'speed_of_sound_ideal_gas', a, ref_a, rtol=1e-5, what='speed of sound vs sqrt(kappa R T)')
    rep.clause('isa_finite_positive', bool(np.all(np.isfinite(T)) and np.all(np.isfinite(p)) and np.all(T > 0) and np.all(p > 0)),
               'non-finite or non-positive T/p')
    # scalar call path agrees with the array path
    for hv in (0.0, 5000.0, 11000.0, 17000.0):
        ps = float(sa.pressure_at_altitude_isa_bada4(hv))
        pv = float(np.array(sa.pressure_at_altitude_isa_bada4(np.array([hv])))[0])
        rep.clause('isa_scalar_equals_array', close(ps, pv, RTOL), f'h={hv}: scalar {ps!r} array {pv!r}')
    # whole-number altitudes handed over as integers (a Python int, an integer array: flight levels, a column read from a file)
    # are the same altitudes: the answers must be those of the float call
    hi_ = np.array(sorted({int(x) for x in h if 0 <= x <= 25000} | {0, 500, 11000, 12000, 25000}), dtype=np.int64)
    Tf = np.asarray(sa.temperature_at_altitude_isa_bada4(hi_.astype(float)), dtype=float)
    pf_ = np.asarray(sa.pressure_at_altitude_isa_bada4(hi_.astype(float)), dtype=float)
    Ti = np.asarray(sa.temperature_at_altitude_isa_bada4(hi_), dtype=float)
    pi_ = np.asarray(sa.pressure_at_altitude_isa_bada4(hi_), dtype=float)
    j = _first_bad(Ti, Tf, RTOL)
    rep.clause('isa_integer_altitudes', j is None and _first_bad(pi_, pf_, RTOL) is None,
               '' if j is None and _first_bad(pi_, pf_, RTOL) is None else
               f'integer altitude array: T {Ti[j if j is not None else 0]!r} vs float call {Tf[j if j is not None else 0]!r} at h={int(hi_[j if j is not None else 0])}')
    for hv in (0, 7000, 12000):
        ts, tf = float(sa.temperature_at_altitude_isa_bada4(hv)), float(sa.temperature_at_altitude_isa_bada4(float(hv)))
        ps_i, ps_f = float(sa.pressure_at_altitude_isa_bada4(hv)), float(sa.pressure_at_altitude_isa_bada4(float(hv)))
        rep.clause('isa_integer_altitudes', close(ts, tf, RTOL) and close(ps_i, ps_f, RTOL), f'h={hv} (int): T {ts!r} p {ps_i!r} vs float call T {tf!r} p {ps_f!r}')
    # inverse in both directions, both layers
    hb = sa.altitude_from_pressure_isa_bada4(p)
    i = _first_bad(hb, h, RTOL, 1e-6)
    rep.clause('pressure_altitude_inverse', i is None,
               '' if i is None else f'h={h[i]!r}: altitude(pressure(h))={float(hb[i])!r}')
    om = ctx.driver.outs([{'op': 'c12.alt', 'p': fs2u(p)}])[0]
    _cmp(rep, 'isa_follows_cited_method', hb, u2fs(om['h']), atol=1e-6, what='altitude_from_pressure')
    pgrid = np.concatenate([np.linspace(2500.0, 110000.0, 40), [u2f(om['ptrop'])]])
    pb = np.array(sa.pressure_at_altitude_isa_bada4(np.minimum(sa.altitude_from_pressure_isa_bada4(pgrid), 25000.0)))
    i = _first_bad(pb, pgrid, RTOL)
    rep.clause('altitude_pressure_inverse', i is None,
               '' if i is None else f'p={pgrid[i]!r}: pressure(altitude(p))={float(pb[i])!r}')
    # continuity at the tropopause
    h0 = 11000.0
    trio = np.array([np.nextafter(h0, 0), h0, np.nextafter(h0, 1e9)])
    pt = np.array(sa.pressure_at_altitude_isa_bada4(trio))
    Tt = sa.temperature_at_altitude_isa_bada4(trio)
    rep.clause('isa_continuous_at_tropopause', close(pt[0], pt[2], 1e-9) and close(pt[0], pt[1], 1e-9) and close(Tt[0], Tt[2], 1e-9),
               f'p around 11 km: {pt.tolist()} T: {np.asarray(Tt).tolist()}')
    # monotone
    order = np.argsort(h)
    hs, ps_, Ts = h[order], p[order], np.asarray(T)[order]
    bad = [j for j in range(len(hs) - 1) if hs[j + 1] - hs[j] > 1e-3 and not ps_[j + 1] < ps_[j]]
    rep.clause('isa_pressure_decreasing', not bad, '' if not bad else f'h={hs[bad[0]]!r},{hs[bad[0] + 1]!r} p={ps_[bad[0]]!r},{ps_[bad[0] + 1]!r}')
    bad = [j for j in range(len(hs) - 1) if Ts[j + 1] > Ts[j] + 1e-12]
    rep.clause('isa_temperature_nonincreasing', not bad, '' if not bad else f'h={hs[bad[0]]!r}')
    # published table
    for (hh, Tref, pref) in ISA_TABLE:
        Tv = float(sa.temperature_at_altitude_isa_bada4(hh))
        pv = float(sa.pressure_at_altitude_isa_bada4(hh))
        rep.clause('isa_published_table', close(Tv, Tref, 1e-6) and close(pv, pref, 2e-5),
                   f'h={hh}: impl T={Tv!r} p={pv!r}; ISO 2533 T={Tref} p={pref}')
    # AtmosphericState (emissions/types.py): same T, p, Mach = tas / sqrt(kappa R T)
    tas = np.linspace(0.0, 280.0, len(h))
    st = impl.AtmosphericState(h, tas)
    mm = ctx.driver.outs([{'op': 'c12.mach', 'tas': fs2u(tas), 'h': fs2u(h)}])[0]
    _cmp(rep, 'isa_follows_cited_method', st.mach, u2fs(mm), what='AtmosphericState.mach')
    _cmp(rep, 'isa_follows_cited_method', st.pressure, mp, what='AtmosphericState.pressure')
    ctx.count('isa:troposphere', int(np.sum(h <= 11000.0)))
    ctx.count('isa:stratosphere', int(np.sum(h > 11000.0)))
    return rep


def check_sls(ctx, impl, case, outs):
    rep = Rep(ctx, case)
    ff, P, T, M = (np.array(case[k]) for k in ('ff', 'P', 'T', 'M'))
    n = case['neng']
    f = impl.get_SLS_equivalent_fuel_flow
    w = f(ff, P, T, M, n_eng=n)
    _cmp(rep, 'sls_follows_cited_method', w, u2fs(outs[0]), what='Wf_SL')
    rep.clause('sls_finite_nonneg', _finite_nonneg(w), f'{_fl(w)[:5]}')
    w2 = f(2.0 * ff, P, T, M, n_eng=n)
    i = _first_bad(w2, 2.0 * np.asarray(w), 1e-12)
    rep.clause('sls_linear_in_fuel_flow', i is None, '' if i is None else f'index {i}')
    ref = f(ff, np.full_like(ff, 101325.0), np.full_like(ff, 288.15), np.zeros_like(ff), n_eng=n)
    i = _first_bad(ref, ff / n, 1e-12)
    rep.clause('sls_identity_at_reference', i is None, '' if i is None else f'ff={ff[i]!r}: {float(ref[i])!r} vs {ff[i] / n!r}')
    return rep


def _impl_cats(impl, ff, cal):
    r = impl.get_thrust_cat_cruise(np.array(ff), impl.tmv(cal))
    return [str(x) for x in r.data]


def check_cat(ctx, impl, case, outs):
    rep = Rep(ctx, case)
    ff = case['ff']
    cats = _impl_cats(impl, ff, case['cal'])
    rep.clause('thrust_cat_total', all(c in CATS[:3] for c in cats) and len(cats) == len(ff), f'{cats[:6]}')
    if all(c in CATS for c in cats):
        rank = [CATS.index(c) for c in cats]
        order = np.argsort(ff, kind='stable')
        bad = [j for j in range(len(order) - 1) if rank[order[j + 1]] < rank[order[j]]]
        rep.clause('thrust_cat_monotone', not bad,
                   '' if not bad else f'ff={ff[order[bad[0]]]!r}->{cats[order[bad[0]]]}, ff={ff[order[bad[0] + 1]]!r}->{cats[order[bad[0] + 1]]}')
        model = [CATS[k] for k in outs[0]]
        bad = [j for j in range(len(ff)) if cats[j] != model[j]]
        rep.clause('thrust_cat_follows_midpoint_rule', not bad,
                   '' if not bad else f'ff={ff[bad[0]]!r}: impl {cats[bad[0]]} model {model[bad[0]]}')
        for c in set(cats):
            ctx.count('cat:' + c, cats.count(c))
    return rep


def check_nox(ctx, impl, case, outs):
    rep = Rep(ctx, case)
    ff, T, P = np.array(case['ff']), np.array(case['T']), np.array(case['P'])
    cal, ei = case['cal'], case['ei']
    asis, pub = outs
    if not (u2f(asis['sxx']) > 0.0) or max(cal) / min(cal) < 1.0 + 1e-6:
        # all four calibration flows equal: the regression line is not determined (np.polyfit returns its minimum-norm
        # solution), so the values are not compared with the cited equations — but the indices must still be finite and
        # non-negative ("equal calibration flows" are inside the property's quantification)
        ctx.count('nox:degenerate_all_flows_equal')
        try:
            with np.errstate(all='ignore'), warnings.catch_warnings():
                warnings.simplefilter('ignore')
                r = impl.BFFM2_EINOx(ff, impl.tmv(ei), impl.tmv(cal), T, P)
            comps = [r.NOxEI, r.NOEI, r.NO2EI, r.HONOEI, r.noProp, r.no2Prop, r.honoProp]
            fin = all(_finite_nonneg(x) for x in comps)
            only_inf = all(bool(np.all(np.nan_to_num(np.asarray(x, dtype=float), nan=-1.0, posinf=1.0) >= 0.0)) for x in comps)
            # (np.polyfit's minimum-norm line through four points with one abscissa x0 has slope ~ mean(y) / (2 x0): for flows near
            #  1 kg/s, x0 = log10(flow) is tiny, the slope is of the order of hundreds and the extrapolation overflows like in the
            #  near-equal case — the same open finding; NaN or negative values are still violations)
            rep.clause('nox_finite_nonneg', fin, f'four equal calibration flows {cal[0]!r}: NOxEI {_fl(np.asarray(r.NOxEI, dtype=float))[:6]}',
                       finding=F_OVF if (not fin and only_inf) else None)
        except Exception as e:  # noqa: BLE001
            rep.clause('nox_finite_nonneg', False, f'raised {type(e).__name__} with four equal calibration flows')
        return rep
    narrow = max(cal) / min(cal) < 1.03
    rtol = 1e-7 if narrow else RTOL
    ctx.count('nox:narrow_span' if narrow else 'nox:regular')
    before = (ff.copy(), T.copy(), P.copy())
    r = impl.BFFM2_EINOx(ff, impl.tmv(ei), impl.tmv(cal), T, P)
    # the arrays handed in are the caller's (the same fuel-flow array goes on to the HC / CO fit and to the thrust categories)
    rep.clause('inputs_not_modified', all(np.array_equal(a, b, equal_nan=True) for a, b in zip(before, (ff, T, P))),
               f'BFFM2_EINOx changed an argument array in place: fuel flows {_fl(before[0])[:6]} -> {_fl(ff)[:6]}')
    ff, T, P = (a.copy() for a in before)
    nox = np.asarray(r.NOxEI, dtype=float)
    # model validation against the as-is variant
    ok_asis = _first_bad(nox, u2fs(asis['nox']), rtol) is None
    # clause: agrees with the published equations
    i = _first_bad(nox, u2fs(pub['nox']), rtol)
    if i is not None:
        a, b = float(nox[i]), u2f(pub['nox'][i])
        rep.clause('nox_follows_cited_method', False,
                   f'ff={ff[i]!r} T={T[i]!r} P={P[i]!r}: impl NOxEI={a!r}, published BFFM2 (H=-19(w-0.00634))={b!r}, ratio={a / b if b else float("nan")!r}'
                   f' (as-is model {u2f(asis["nox"][i])!r}, impl {"agrees" if ok_asis else "DISAGREES"} with the as-is model)',
                   finding=F_HUM if ok_asis else None)
    # (an implementation that agrees with the published variant has repaired the finding: nothing to report)
    ctx.count('nox:agrees_as_is' if ok_asis else ('nox:agrees_published' if i is None else 'nox:agrees_neither'))
    comps = [r.NOxEI, r.NOEI, r.NO2EI, r.HONOEI, r.noProp, r.no2Prop, r.honoProp]
    if abs(u2f(asis['slope'])) <= 30.0:  # beyond that 10**(slope * dlog) may legitimately overflow a double
        rep.clause('nox_finite_nonneg', all(_finite_nonneg(x) for x in comps), 'non-finite or negative component')
    else:
        # calibration flows within a fraction of a percent of each other and certification indices decades apart: the log-log line
        # has a slope of hundreds and 10**(slope * dlog) overflows a double above the calibration range — mathematically finite,
        # numerically `inf`: the open finding, and nothing else (a negative or NaN component is still a violation)
        ctx.count('nox:extreme_slope')
        fin = all(_finite_nonneg(x) for x in comps)
        only_inf = all(bool(np.all(np.nan_to_num(np.asarray(x, dtype=float), nan=-1.0, posinf=1.0) >= 0.0)) for x in comps)
        rep.clause('nox_finite_nonneg', fin, f'slope {u2f(asis["slope"])!r}: NOxEI {_fl(np.asarray(r.NOxEI, dtype=float))[:6]}',
                   finding=F_OVF if (not fin and only_inf) else None)
    # speciation / categories follow the model (thresholds computed from identical expressions: exact)
    cats = list(asis['cat'])
    for nm, arr in (('noProp', r.noProp), ('no2Prop', r.no2Prop), ('honoProp', r.honoProp)):
        _cmp(rep, 'nox_speciation_follows_cited_method', arr, u2fs(asis[nm]), 1e-12, what=nm)
    tot = np.asarray(r.noProp) + np.asarray(r.no2Prop) + np.asarray(r.honoProp)
    rep.clause('speciation_sums_to_one', bool(np.all(np.abs(tot - 1.0) <= 1e-12)), f'{_fl(tot)[:4]}')
    s = np.asarray(r.NOEI) + np.asarray(r.NO2EI) + np.asarray(r.HONOEI)
    i = _first_bad(s, nox, 1e-12, 1e-300)   # (absolute floor: subnormal indices carry no twelve digits)
    rep.clause('nox_components_sum', i is None, '' if i is None else f'index {i}: {float(s[i])!r} vs {float(nox[i])!r}')
    # linear scaling in the certification indices
    c = case.get('c', 2.0)
    r2 = impl.BFFM2_EINOx(ff, impl.tmv([c * e for e in ei]), impl.tmv(cal), T, P)
    a2, b2 = np.asarray(r2.NOxEI, dtype=float), c * nox
    if abs(u2f(asis['slope'])) > 30.0:
        # (extreme slope: where one side has overflowed to `inf` and the other, scaled by c, has not yet, linearity cannot be read off
        #  doubles — the overflow itself is the open finding reported by `nox_finite_nonneg` above; only finite pairs are compared)
        fin2 = np.isfinite(a2) & np.isfinite(b2) & (np.abs(a2) < 1e300) & (np.abs(b2) < 1e300)
        a2, b2 = a2[fin2], b2[fin2]
    i = _first_bad(a2, b2, 1e-6 if narrow else 1e-8, 1e-300)
    rep.clause('nox_scales_linearly', i is None, '' if i is None else f'c={c!r} index {i}: {float(a2[i])!r} vs {float(b2[i])!r}')
    # reference conditions: at sea-level static ISA the certification data must be reproduced (log-linear data: exactly)
    lx, ly = np.log10(cal), np.log10(ei)
    A = np.vstack([lx, np.ones(4)]).T
    coef, res = np.linalg.lstsq(A, ly, rcond=None)[:2]
    if float(np.max(np.abs(A @ coef - ly))) < 1e-12 and not narrow:
        rr = impl.BFFM2_EINOx(np.array(cal), impl.tmv(ei), impl.tmv(cal), np.full(4, 288.15), np.full(4, 101325.0))
        i = _first_bad(rr.NOxEI, ei, 1e-4)
        if i is not None:
            ref_asis = ctx.driver.outs([{'op': 'c12.nox', 'ff': fs2u(cal), 'ei': fs2u(ei), 'cal': fs2u(cal),
                                         'T': fs2u([288.15] * 4), 'P': fs2u([101325.0] * 4), 'variant': 'asis'}])[0]
            same = _first_bad(rr.NOxEI, u2fs(ref_asis['nox']), RTOL) is None
            rep.clause('nox_reproduces_certification_at_reference_conditions', False,
                       f'T=288.15 P=101325 ff={cal[i]!r}: impl {float(rr.NOxEI[i])!r} certification {ei[i]!r} ratio {float(rr.NOxEI[i]) / ei[i]!r}',
                       finding=F_HUM if same else None)
        ctx.count('nox:reference_condition_checks')
    for k in set(cats):
        ctx.count(f'nox:cat{k}', cats.count(k))
    return rep


def check_hcco(ctx, impl, case, outs):
    rep = Rep(ctx, case)
    ff, T, P = np.array(case['ff']), np.array(case['T']), np.array(case['P'])
    cal, ei = case['cal'], case['ei']
    o = outs[0]
    before = (ff.copy(), np.array(T, dtype=float, copy=True), np.array(P, dtype=float, copy=True))
    r = np.asarray(impl.EI_HCCO(ff, impl.tmv(ei), impl.tmv(cal), T, P), dtype=float)
    rep.clause('inputs_not_modified', all(np.array_equal(a, np.asarray(b, dtype=float), equal_nan=True) for a, b in zip(before, (ff, T, P))),
               f'EI_HCCO changed an argument array in place: fuel flows {_fl(before[0])[:6]} -> {_fl(ff)[:6]}')
    ff = before[0].copy()
    m = u2fs(o['ei'])
    xint = u2f(o['xint'])
    branch = o['branch']
    ctx.count(f'hcco:branch{branch}')
    pos = ff > 0.0
    for j in range(len(ff)):
        if close(r[j], m[j], RTOL):
            continue
        if not pos[j]:
            # zero flow: outside the cited equations (log 0); only finiteness / sign are required
            ctx.count('hcco:zero_flow_differs_from_model')
            continue
        lf = math.log10(ff[j])
        exact = any(ff[j] == c for c in cal)  # both sides then compare log10 of the same double with itself: no tie
        if not exact and abs(lf - xint) <= 1e-12 * max(1.0, abs(xint)):
            ctx.tie_suspects += 1
            continue
        rep.clause('hcco_follows_cited_method', False,
                   f'ff={ff[j]!r} T={T[j]!r} P={P[j]!r} branch={branch}: impl {float(r[j])!r} model {m[j]!r}')
        break
    slope = u2f(o['slope'])
    extreme = not abs(slope) <= 30.0  # 10**(slope * dlog) may legitimately overflow a double
    if extreme:
        ctx.count('hcco:extreme_slope')
    fin = _finite_nonneg(r)
    only_inf = bool(np.all(np.nan_to_num(np.asarray(r, dtype=float), nan=-1.0, posinf=1.0) >= 0.0))
    # (an extreme slope may overflow the slanted segment to `inf` below the idle flow: the open finding; NaN / negative values never)
    rep.clause('hcco_finite_nonneg', fin, f'slope {slope!r}: {_fl(r)[:6]}', finding=F_OVF if (extreme and not fin and only_inf) else None)
    c = case.get('c', 2.0)
    r2 = np.asarray(impl.EI_HCCO(ff, impl.tmv([c * e for e in ei]), impl.tmv(cal), T, P), dtype=float)
    a2, b2, ffc = r2, c * r, ff
    if extreme:
        # (as for NOx: with an extreme slope only pairs in which neither side has overflowed are compared)
        fin2 = np.isfinite(a2) & np.isfinite(b2) & (np.abs(a2) < 1e300) & (np.abs(b2) < 1e300)
        a2, b2, ffc = a2[fin2], b2[fin2], ff[fin2]
    i = _first_bad(a2, b2, 1e-9)
    rep.clause('hcco_scales_linearly', i is None, '' if i is None else f'c={c!r} ff={ffc[i]!r}: {float(a2[i])!r} vs {float(b2[i])!r}')
    # documented clamping (theorem hcco_clamped): increasing idle<approach<climb flows, flow at or above idle
    if cal[0] < cal[1] < cal[2]:
        fac = (T / 288.15) ** 3.3 / (P / 101325.0) ** 1.02
        gm = math.sqrt(ei[2] * ei[3])
        lo, hi = min(ei[0], ei[1], gm), max(ei[0], ei[1], gm)
        for j in range(len(ff)):
            if ff[j] >= cal[0]:
                v = r[j] / fac[j]
                if not (lo * (1 - 1e-9) <= v <= hi * (1 + 1e-9)):
                    rep.clause('hcco_clamped', False, f'ff={ff[j]!r}: sea-level value {v!r} outside [{lo!r}, {hi!r}] branch={branch}')
                    break
        ctx.count('hcco:clamp_checked')
    # ACRP low-thrust rule: just below the idle flow the value is the idle-flow value times 1 + 52 (ff_idle - ff)
    if cal[0] > 0:
        d = 1e-7 * cal[0]
        pair = np.array([cal[0] - d, cal[0]])
        Tp, Pp = np.full(2, 288.15), np.full(2, 101325.0)
        v = np.asarray(impl.EI_HCCO(pair, impl.tmv(ei), impl.tmv(cal), Tp, Pp), dtype=float)
        lf0 = math.log10(cal[0])
        if abs(lf0 - xint) > 1e-6 and v[1] > 0 and not extreme:  # not at a segment jump
            rep.clause('hcco_low_thrust_continuous', close(v[0], v[1], 1e-4), f'just below idle {v[0]!r}, at idle {v[1]!r}')
        half = np.array([0.5 * cal[0]])
        vh = float(impl.EI_HCCO(half, impl.tmv(ei), impl.tmv(cal), Tp[:1], Pp[:1])[0])
        mh = ctx.driver.outs([{'op': 'c12.hcco', 'ff': fs2u(half), 'ei': fs2u(ei), 'cal': fs2u(cal), 'T': fs2u(Tp[:1]),
                               'P': fs2u(Pp[:1])}])[0]
        rep.clause('hcco_low_thrust_rule', close(vh, u2f(mh['ei'][0]), RTOL) or abs(math.log10(half[0]) - xint) < 1e-12,
                   f'ff=0.5*idle: impl {vh!r} model {u2f(mh["ei"][0])!r}')
    # float (not array) ambient arguments, as the signature allows
    rs = np.asarray(impl.EI_HCCO(ff[:6], impl.tmv(ei), impl.tmv(cal), 250.0, 40000.0), dtype=float)
    ra = np.asarray(impl.EI_HCCO(ff[:6], impl.tmv(ei), impl.tmv(cal), np.full(6, 250.0), np.full(6, 40000.0)), dtype=float)
    i = _first_bad(rs, ra, RTOL)
    rep.clause('hcco_scalar_ambient_equals_array', i is None, '' if i is None else f'ff={ff[i]!r}: {float(rs[i])!r} vs {float(ra[i])!r}')
    segs = list(o['seg'])
    for k in set(segs):
        ctx.count(f'hcco:segment{k}', segs.count(k))
    ctx.count('hcco:low_thrust_points', int(np.sum(ff < cal[0])))
    return rep


def check_sox(ctx, impl, case, outs):
    rep = Rep(ctx, case)
    o = outs[0]
    so2, so4, sox = [], [], []
    for s, y in zip(case['s'], case['y']):
        fuel = impl.fuel0.model_copy(update={'fuel_sulfur_content_nom': float(s), 'sulfate_yield_nom': float(y)})
        r = impl.EI_SOx(fuel)
        so2.append(r.EI_SO2)
        so4.append(r.EI_SO4)
        sox.append(r.EI_SOx)
    _cmp(rep, 'sox_follows_cited_method', so2, u2fs(o['so2']), what='EI_SO2')
    _cmp(rep, 'sox_follows_cited_method', so4, u2fs(o['so4']), what='EI_SO4')
    _cmp(rep, 'sox_follows_cited_method', sox, u2fs(o['sox']), what='EI_SOx')
    rep.clause('sox_finite_nonneg', _finite_nonneg(so2) and _finite_nonneg(so4) and _finite_nonneg(sox), '')
    for s, y, a, b, t in zip(case['s'], case['y'], so2, so4, sox):
        ok = close(a / 64.0 + b / 96.0, s / 1e6 * 1e3 / 32.0, 1e-12, 1e-300) and close(t, a + b, 1e-12)
        if not rep.clause('sox_sulfur_conserved', ok,
                          f'S={s!r} ppm yield={y!r}: SO2/64+SO4/96={a / 64.0 + b / 96.0!r} vs S/32={s / 1e6 * 1e3 / 32.0!r}'):
            break
    return rep


def check_foa3(ctx, impl, case, outs):
    rep = Rep(ctx, case)
    thr, hc = np.array(case['thr']), np.array(case['hc'])
    o = outs[0]
    pm, oc = impl.EI_PMvol_FOA3(thr, hc)
    _cmp(rep, 'foa3_follows_cited_method', pm, u2fs(o['pmvol']), what='PMvol')
    _cmp(rep, 'foa3_follows_cited_method', oc, u2fs(o['pmvol']), what='OCic')
    rep.clause('foa3_finite_nonneg', _finite_nonneg(pm) and _finite_nonneg(oc), '')
    nz = hc > 0
    d = np.asarray(pm)[nz] * 1000.0 / hc[nz]
    bad = [j for j in range(len(d)) if not (6.17 * (1 - 1e-12) <= d[j] <= 115.0 * (1 + 1e-12))]
    rep.clause('foa3_within_deltas', not bad, '' if not bad else f'thrust={thr[nz][bad[0]]!r}: delta={d[bad[0]]!r}')
    pm2, _ = impl.EI_PMvol_FOA3(thr, 3.0 * hc)
    i = _first_bad(pm2, 3.0 * np.asarray(pm), 1e-12)
    rep.clause('foa3_scales_linearly', i is None, '' if i is None else f'index {i}')
    # 2-D inputs (n_types, n_times) as in the docstring
    pm3, _ = impl.EI_PMvol_FOA3(thr[:8].reshape(2, 4), hc[:8].reshape(2, 4))
    _cmp(rep, 'foa3_follows_cited_method', np.asarray(pm3).ravel(), u2fs(o['pmvol'])[:8], what='PMvol 2-D')
    return rep


def check_pmvolff(ctx, impl, case, outs):
    rep = Rep(ctx, case)
    o = outs[0]
    modes = list(impl.ThrustMode)
    arr = impl.ThrustModeArray(np.array([modes[k] for k in case['cat']]))
    pm, oc = impl.EI_PMvol_FuelFlow(np.ones(len(case['cat'])), arr)
    _cmp(rep, 'pmvol_fuelflow_follows_cited_method', pm, u2fs(o['pmvol']), what='PMvol')
    _cmp(rep, 'pmvol_fuelflow_follows_cited_method', oc, [u2f(o['ocic'])] * len(case['cat']), what='OCic')
    rep.clause('pmvol_fuelflow_finite_nonneg', _finite_nonneg(pm) and _finite_nonneg(oc), '')
    return rep


def check_scope11(ctx, impl, case, outs):
    rep = Rep(ctx, case)
    et = ['MTF', 'TF', 'TP'][case['etype']]
    impl.calculate_PMnvolEI_scope11.cache_clear()
    r = impl.calculate_PMnvolEI_scope11(impl.tmv(case['sn']), et, float(case['bpr']))
    v = r.as_array()
    _cmp(rep, 'scope11_follows_cited_method', v, u2fs(outs[0]), what=f'PMnvolEI ({et})')
    rep.clause('scope11_finite_nonneg', _finite_nonneg(v), f'{_fl(v)}')
    # the route the inventory code takes: scope11_profile(edb). Different certification data sets of one engine (same
    # name and UID, e.g. a revised data-bank issue) evaluated one after the other in this process must each get their own
    # SCOPE11 indices — the cache of that function is deliberately NOT cleared here.
    from AEIC.emissions.utils import scope11_profile

    z = impl.tmv([0.0, 0.0, 0.0, 0.0])
    nan = float('nan')
    edb = impl.EDBEntry(engine='verif-shared', uid='SHARED', engine_type=et, BP_Ratio=float(case['bpr']), rated_thrust=100.0,
                        fuel_flow=z, CO_EI_matrix=z, HC_EI_matrix=z, EI_NOx_matrix=z, SN_matrix=impl.tmv(case['sn']),
                        nvPM_mass_matrix=z, nvPM_num_matrix=z, PR=impl.tmv([20.0] * 4), EImass_max=1.0, EImass_max_thrust=nan,
                        EInum_max=1.0, EInum_max_thrust=nan) if _edb_fields_ok(impl) else None
    if edb is not None:
        pv = scope11_profile(edb).mass.as_array()
        _cmp(rep, 'scope11_follows_cited_method', pv, u2fs(outs[0]), what=f'scope11_profile(edb).mass ({et}, shared engine/uid)')
    ctx.count('scope11:' + et)
    ctx.count('scope11:skipped_modes', sum(1 for s in case['sn'] if s in (-1.0, 0.0)))
    ctx.count('scope11:capped_modes', sum(1 for s in case['sn'] if s > 40.0))
    return rep


_EDB_OK = None


def _edb_fields_ok(impl) -> bool:
    """EDBEntry constructor signature as this harness knows it (else the shared-uid probe is skipped, never a false alarm)"""
    global _EDB_OK
    if _EDB_OK is None:
        import dataclasses

        try:
            names = {f.name for f in dataclasses.fields(impl.EDBEntry)}
        except TypeError:
            names = set()
        need = {'engine', 'uid', 'engine_type', 'BP_Ratio', 'rated_thrust', 'fuel_flow', 'CO_EI_matrix', 'HC_EI_matrix',
                'EI_NOx_matrix', 'SN_matrix', 'nvPM_mass_matrix', 'nvPM_num_matrix', 'PR', 'EImass_max', 'EImass_max_thrust',
                'EInum_max', 'EInum_max_thrust'}
        _EDB_OK = need == names or need <= names and all(
            f.default is not dataclasses.MISSING or f.default_factory is not dataclasses.MISSING
            for f in dataclasses.fields(impl.EDBEntry) if f.name not in need)
    return _EDB_OK


def _edb(impl, case, scale=1.0, uid='u'):
    z = impl.tmv([0.0, 0.0, 0.0, 0.0])
    mass = [m * scale if m >= 0 else m for m in case['mass']]
    nan = float('nan')
    return impl.EDBEntry(
        engine='verif', uid=uid, engine_type='MTF' if case['mtf'] else 'TF', BP_Ratio=float(case['bpr']),
        rated_thrust=100.0, fuel_flow=z, CO_EI_matrix=z, HC_EI_matrix=z, EI_NOx_matrix=z,
        SN_matrix=impl.tmv(case['sn']), nvPM_mass_matrix=impl.tmv(mass), nvPM_num_matrix=impl.tmv(case['num']),
        PR=impl.tmv([case['pr']] * 4), EImass_max=float(case['massMax']) * scale,
        EImass_max_thrust=nan if case['massMaxThrust'] is None else float(case['massMaxThrust']),
        EInum_max=float(case['numMax']),
        EInum_max_thrust=nan if case['numMaxThrust'] is None else float(case['numMaxThrust']))


def _same(a, b, rtol=RTOL):
    return _first_bad(a, b, rtol) is None


def check_meem(ctx, impl, case, outs):
    rep = Rep(ctx, case)
    asis, intended = outs
    alt, T, P, M = (np.array(case[k]) for k in ('alt', 'T', 'P', 'M'))
    g, m, n = impl.PMnvol_MEEM(_edb(impl, case), alt, T, P, M)
    trip = lambda o: u2fs(o['mass']) + u2fs(o['num']) + u2fs(o['gmd'])  # noqa: E731
    mine = _fl(m) + _fl(n) + _fl(g)
    ok_asis = _same(mine, trip(asis))
    ok_int = _same(mine, trip(intended))
    if not (ok_asis or ok_int):
        _cmp(rep, 'meem_model', m, u2fs(asis['mass']), as_clause=False, what='EI mass')
        _cmp(rep, 'meem_model', n, u2fs(asis['num']), as_clause=False, what='EI number')
        _cmp(rep, 'meem_model', g, u2fs(asis['gmd']), as_clause=False, what='GMD')
    ctx.count('meem:agrees_as_is' if ok_asis else ('meem:agrees_intended' if ok_int else 'meem:agrees_neither'))
    fin = _finite_nonneg(m) and _finite_nonneg(n) and _finite_nonneg(g)
    if not fin:
        j = next(i for i in range(len(alt)) if not all(math.isfinite(float(x[i])) and float(x[i]) >= 0 for x in (m, n, g)))
        p3 = u2fs(asis['p3'])
        # covered by the open finding only when the as-is model predicts exactly this output (NaN at the same points,
        # caused by a negative modelled combustor inlet pressure)
        predicted = ok_asis and p3[j] < 0
        rep.clause('meem_finite_nonneg', False,
                   f'point {j}: alt={alt[j]!r} (prev {alt[max(j - 1, 0)]!r}, max {float(alt.max())!r}) mass={float(m[j])!r} '
                   f'num={float(n[j])!r} gmd={float(g[j])!r}; modelled P3={p3[j]!r} Pa',
                   finding=F_MEEM if predicted else None)
    if min(case['mass']) >= 0 and fin:
        c = case.get('c', 2.0)
        _, m2, _ = impl.PMnvol_MEEM(_edb(impl, case, scale=c, uid='s'), alt, T, P, M)
        i = _first_bad(m2, c * np.asarray(m), 1e-9)
        rep.clause('meem_mass_scales_linearly', i is None, '' if i is None else f'c={c!r} index {i}: {float(m2[i])!r} vs {c * float(m[i])!r}')
    ctx.count('meem:mass_given' if min(case['mass']) >= 0 else 'meem:mass_reconstructed')
    ctx.count('meem:num_given' if min(case['num']) >= 0 else 'meem:num_reconstructed')
    ctx.count('meem:low_flight' if float(alt.max()) < 4100.0 else 'meem:high_flight')
    return rep


CHECKS = {'isa': check_isa, 'sls': check_sls, 'cat': check_cat, 'nox': check_nox, 'hcco': check_hcco, 'sox': check_sox,
          'foa3': check_foa3, 'pmvolff': check_pmvolff, 'scope11': check_scope11, 'meem': check_meem}


def _nontrivial(case):
    fn = case['fn']
    if fn in ('isa', 'sox', 'foa3', 'pmvolff', 'sls'):
        return True
    if fn in ('cat', 'nox', 'hcco'):
        return True  # every case contains threshold / low-thrust / stratospheric evaluation points
    if fn == 'scope11':
        return any(s in (-1.0, 0.0) or s > 40.0 for s in case['sn']) or case['etype'] != 1
    if fn == 'meem':
        return min(case['mass']) < 0 or min(case['num']) < 0 or case['massMaxThrust'] not in (None, -1.0)
    return True


def run_cases(ctx, impl, cases):
    """impl + model + clauses for a list of cases (driver batched)"""
    ops, spans = [], []
    for c in cases:
        o = model_ops(c)
        spans.append((len(ops), len(ops) + len(o)))
        ops.extend(o)
    outs = ctx.driver.outs(ops)
    reps = []
    for c, (a, b) in zip(cases, spans):
        try:
            rep = CHECKS[c['fn']](ctx, impl, c, outs[a:b])
        except Exception as e:  # the implementation refused / crashed on an in-domain input
            rep = Rep(ctx, c)
            rep.clause(f"{c['fn']}_runs_on_domain_input", False, f'{type(e).__name__}: {e}')
        reps.append(rep)
        small = {k: (v[:3] if isinstance(v, list) else v) for k, v in c.items()}
        ctx.case(_key(c), nontrivial=_nontrivial(c), sample=small)
        ctx.count('stream:' + c['fn'])
    return reps


def corpus_cases():
    d = CORPUS_DIR / PID
    if not d.exists():
        return []
    out = []
    for p in sorted(d.glob('*.json')):
        data = json.loads(p.read_text())
        out.append((p.name, data['case'] if 'case' in data else data))
    return out


def main(ctx):
    ctx.proofs()
    aeic_setup()
    load_fragment_findings(ctx)
    impl = Impl()
    rng = ctx.rng
    try:
        # 1. corpus first
        cc = corpus_cases()
        if cc:
            run_cases(ctx, impl, [c for _, c in cc])
            ctx.count('corpus_cases', len(cc))
        # 2. generated streams
        n = ctx.scale(quick=1, thorough=12)
        cases = []
        cases += cases_isa(rng, 3000 * n)
        cases += cases_sls(rng, impl, 600 * n)
        cases += cases_cat(rng, 180 * n)
        cases += cases_nox(rng, impl, 270 * n)
        cases += cases_hcco(rng, impl, 440 * n)
        cases += cases_sox(rng, 400 * n)
        cases += cases_pmvol(rng, 600 * n)
        cases += cases_scope11(rng, 210 * n)
        cases += cases_meem(rng, impl, 160 * n)
        for i in range(0, len(cases), 400):
            run_cases(ctx, impl, cases[i:i + 400])
        # 3. kernels regenerated from the source (translator validation; the bridge to the models is proved in Lean)
        from . import kernels

        kernels.check(ctx, files={'utils/standard_atmosphere.py', 'emissions/ei/sox.py', 'emissions/utils.py',
                                  'emissions/ei/nox.py', 'emissions/ei/hcco.py', 'emissions/ei/pmnvol.py'})
        kernels.check_sym(ctx, files={'emissions/ei/hcco.py', 'emissions/ei/pmvol.py', 'emissions/utils.py', 'emissions/ei/pmnvol.py'})
    finally:
        try:
            from AEIC.config import Config

            Config.reset()
        except Exception:
            pass
    return ctx.finish(RULE, TRUSTED, ASSUME)


def replay(ctx, path):
    """re-run one stored case (corpus file, or a replay written by ctx.finish) against the real implementation"""
    data = json.loads(Path(path).read_text())
    if 'first' in data:
        case = data['first']['case']
    elif 'case' in data:
        case = data['case']
    else:
        case = data
    if not isinstance(case, dict) or 'fn' not in case:
        print(f'[{PID}] replay: {path} names no concrete input ({data.get("kind")}); broken obligations: '
              f'{data.get("broken_obligations")}')
        return 0
    aeic_setup()
    load_fragment_findings(ctx)
    impl = Impl()
    try:
        rep = run_cases(ctx, impl, [case])[0]
    finally:
        from AEIC.config import Config

        Config.reset()
    if not rep.fails:
        print(f'[{PID}] replay {path}: all clauses hold on the implementation, model agrees')
        return 0
    for name, det, finding in rep.fails:
        tag = f' (open finding {finding})' if finding in ctx.open_findings else ''
        print(f'[{PID}] replay FAILS clause {name}{tag}: {det}')
    new = [f for f in rep.fails if not (f[2] in ctx.open_findings)]
    return 1 if new else 0
