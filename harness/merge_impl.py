"""Real-store side of the merged-store checks (C08 merged lookups, C09, C10 merge faults)."""
from __future__ import annotations

import gc
import json
import os
from pathlib import Path

from harness.store_impl import RealStore, canon_impl, err_kind, fresh_dir, item_json, register_extra_fieldset, rm_dir


class MergeCase:
    """k input stores (lists of add ops), optionally a fault/crash point, refusal-provoking variations."""

    def __init__(self, stores: list[dict], **kw):
        self.stores = stores  # each: {'name': 'in0.nc', 'adds': [add ops], 'extra': bool, 'indexed': bool}
        self.kw = kw


def build_inputs(d: Path, stores: list[dict]):
    """Create the input store files; returns tag map."""
    register_extra_fieldset()
    tags = {}
    for st in stores:
        s = RealStore(d, st['name'])
        s.do({'op': 'create', 'file': True, 'cache_mb': 64})
        for a in st['adds']:
            tags[f"t{a['tag']}"] = RealStore.expected_tag(a['tag'], a['npts'])
            r = s.do(a)
            assert r.startswith('idx:'), (a, r)
        s.close()
    gc.collect()
    return tags


def model_files(stores: list[dict]) -> list[dict]:
    sizing = RealStore(Path('/nonexistent'))
    out = []
    for st in stores:
        out.append({'name': st['name'], 'items': [item_json(sizing, a) for a in st['adds']],
                    'fs': 1 if st.get('extra') else 0, 'indexed': bool(st.get('indexed'))})
    return out


def listing(d: Path, out_name: str) -> dict:
    top = sorted(p.name for p in d.iterdir() if p.is_file() and p.suffix == '.nc')
    out = d / out_name
    res = {'top': top, 'out': None}
    if out.exists():
        files = sorted(p.name for p in out.iterdir() if p.suffix == '.nc' and p.name != '_index.nc')
        md = None
        if (out / 'metadata.json').exists():
            try:
                md = [[s[0], s[1]] for s in json.loads((out / 'metadata.json').read_text()).get('stores', [])]
            except Exception:  # noqa: BLE001
                md = 'unreadable'
        res['out'] = {'files': files, 'index': (out / '_index.nc').exists(), 'metadata': md}
    return res


def canon_model_fs(fs: dict) -> dict:
    out = fs['out']
    if out is not None:
        out = {'files': sorted(out['files']), 'index': out['index'], 'metadata': out['metadata']}
    return {'top': sorted(fs['top']), 'out': out}


def read_all(path: Path, tags: dict, cache_mb: int = 64, associated=None):
    """Open a store (single file or merged dir) and list its trajectories; returns canonical strings or an error kind."""
    from AEIC.trajectories import TrajectoryStore

    try:
        kw = {}
        if associated:
            kw['associated_files'] = associated
        ts = TrajectoryStore.open(base_file=path, cache_size_mb=cache_mb, **kw)
    except Exception as e:  # noqa: BLE001
        return 'err:' + err_kind(e)
    try:
        n = len(ts)
        out = []
        for i in range(n):
            try:
                out.append(canon_impl(RealStore.tag_of(ts[i]), tags))
            except Exception as e:  # noqa: BLE001
                out.append('err:' + err_kind(e))
        return out
    finally:
        try:
            ts.close()
        except Exception:  # noqa: BLE001
            pass
        gc.collect()


class FaultInjector:
    """Raises (or kills the process) at the n-th file-system step of `TrajectoryStore.merge`.

    Steps are numbered as in the Lean model: mkdir, one rename per input, creation of `_index.nc` (if any),
    writing `metadata.json`."""

    class Injected(OSError):
        pass

    def __init__(self, n: int | None, kill: bool = False, after: bool = False, exc: str = 'os'):
        self.n = n
        self.kill = kill
        self.exc = exc  # 'os': an OSError; 'kbd': KeyboardInterrupt (Ctrl-C); 'exit': SystemExit (e.g. a SIGTERM handler)
        self.fired = False
        self.after = after  # for index/metadata: fail after the file has been created
        self.count = 0
        self.trace: list[str] = []

    def _hit(self, what: str):
        i = self.count
        self.count += 1
        self.trace.append(what)
        if self.n is not None and i == self.n:
            if self.kill:
                os._exit(17)
            self.fired = True
            if self.exc == 'kbd':
                raise KeyboardInterrupt()
            if self.exc == 'exit':
                raise SystemExit(3)
            raise FaultInjector.Injected(f'injected fault at step {i} ({what})')

    def __enter__(self):
        import AEIC.trajectories.store as st

        self.st = st
        self.orig_mkdir, self.orig_rename = os.mkdir, os.rename
        self.orig_index = st.TrajectoryStore._create_merged_store_index
        self.orig_dump = st.json.dump
        inj = self
        in_rollback = {'v': False}

        def mkdir(p, *a, **k):
            inj._hit('mkdir')
            return inj.orig_mkdir(p, *a, **k)

        def rename(a, b, *x, **k):
            # renames performed by the rollback (destination outside the merged dir) are not merge steps
            if str(b).endswith('.nc') and '.aeic-store' in str(Path(b).parent):
                inj._hit('rename')
            return inj.orig_rename(a, b, *x, **k)

        def index(output_store, input_stores):
            if not inj.after:
                inj._hit('index')
                return inj.orig_index(output_store, input_stores)
            r = inj.orig_index(output_store, input_stores)
            inj._hit('index')
            return r

        def dump(obj, f, *a, **k):
            if isinstance(obj, dict) and 'stores' in obj:
                if not inj.after:
                    inj._hit('metadata')
                    return inj.orig_dump(obj, f, *a, **k)
                f.write('{"stores": [')  # a partially written file
                f.flush()
                inj._hit('metadata')
                f.seek(0)
                f.truncate()
            return inj.orig_dump(obj, f, *a, **k)

        os.mkdir, os.rename = mkdir, rename
        st.TrajectoryStore._create_merged_store_index = staticmethod(index)
        st.json.dump = dump
        return self

    def __exit__(self, *exc):
        os.mkdir, os.rename = self.orig_mkdir, self.orig_rename
        self.st.TrajectoryStore._create_merged_store_index = staticmethod(self.orig_index)
        self.st.json.dump = self.orig_dump
        return False


def do_merge(d: Path, out_name: str, inputs: list[str], fault: FaultInjector | None = None, pattern=None) -> str:
    from AEIC.trajectories import TrajectoryStore

    def call():
        if pattern is not None:
            TrajectoryStore.merge(output_store=d / out_name, input_stores_pattern=d / pattern[0],
                                  input_stores_index_range=pattern[1])
        else:
            TrajectoryStore.merge(output_store=d / out_name, input_stores=[d / n for n in inputs])

    try:
        if fault is not None:
            with fault:
                call()
        else:
            call()
        return 'ok'
    except FaultInjector.Injected:
        return 'fault'
    except (KeyboardInterrupt, SystemExit):
        if fault is not None and fault.fired:
            return 'fault'
        raise
    except ValueError:
        return 'refused'
    except Exception as e:  # noqa: BLE001
        return 'err:' + err_kind(e)
    finally:
        gc.collect()


def gen_stores(rng, k: int, indexed: bool, extra: bool = False, max_n: int = 4, tag0: int = 0, names=None):
    stores = []
    tag = tag0
    used: set[int] = set()
    for j in range(k):
        n = int(rng.integers(1, max_n + 1))
        adds = []
        for _ in range(n):
            fid = None
            if indexed:
                fid = int(rng.integers(-5, 400))
                if rng.random() < 0.2:
                    # flight_id is a 64-bit integer field: identifiers that a double cannot represent are legal (neighbours
                    # above 2**53, near the top of the int64 range, large negative ones)
                    fid = int(rng.choice([2 ** 53, 2 ** 62, -(2 ** 60)])) + int(rng.integers(1, 9))
                while fid in used:
                    fid = int(rng.integers(-5, 4000))
                used.add(fid)
            adds.append({'op': 'add', 'tag': tag, 'npts': int(rng.choice([5, 12, 40])), 'extra': extra, 'fid': fid})
            tag += 1
        stores.append({'name': (names[j] if names else f'in{j}.nc'), 'adds': adds, 'extra': extra, 'indexed': indexed})
    if not names:
        # file names in an order that is NOT their sorted order (the order given to merge is what counts)
        pool = ['west', 'east', 'north', 'south', 'zulu', 'alpha', 'mike', 'p10', 'p9', 'p8', 'B', 'a']
        pick = [str(x) for x in rng.permutation(pool)[:k]]
        for st, nm in zip(stores, pick):
            st['name'] = nm + '.nc'
    return stores
