"""C20 — trajectory stores are confined to a single thread under every interleaving."""
from __future__ import annotations

import itertools
import json
import threading

from harness.common import aeic_setup
from harness.c20_sched import GuardScheduler

RULE = ('two real threads each calling TrajectoryStore.create(); sys.settrace line events of the guard region of __init__ are '
        'gated by a deterministic scheduler; all interleavings of n grants per thread (quick n=4: 70 schedules, thorough n=7: '
        '3432) plus seeded random longer schedules; plus the WHOLE constructor with one pre-emption at every traced line of store.py (both roles); the outcome (which constructors succeed) and the number of traced lines per '
        'thread are compared with the Lean model run on the same (effective) schedule; sequential orders (second thread after '
        'the first finished / after it closed its store, same thread again) are run directly; non-trivial = both threads '
        'entered the guard before either left it; distinct = distinct schedules')
TRUSTED = ['Lean 4.33 kernel', 'axioms: propext, Classical.choice, Quot.sound (audited per theorem each run)',
           'correspondence harness harness/c20.py + harness/c20_sched.py (sys.settrace scheduler)',
           'CPython threading.Lock mutual exclusion']
ASSUME = ['switch points finer than a source line (bytecode level) are not exhibited: the property is stated at line level',
          'each thread constructs one store per race']


def is_overlapping(eff):
    # both threads took a step before either had taken its 4th
    c = {0: 0, 1: 0}
    for t in eff:
        c[t] += 1
        if c[0] >= 1 and c[1] >= 1:
            return min(c.values()) >= 1 and max(c.values()) <= 4
    return False


def main(ctx):
    ctx.proofs()
    aeic_setup()
    g = GuardScheduler()
    # Shape of the ownership code, as the translator reads it. The line-level correspondence below compares traced-line
    # counts with the hand-written instruction list of AeicModel/ThreadGuard.lean, which follows the canonical shape
    # (`with lock: if owner is not None: if owner != me: raise / else: owner = me`). For any other shape (helper method,
    # locals, merged conditions, ...) the tie to the source is the translator + the kernel-checked theorem
    # `generated_guard_mutual_exclusion` for the regenerated program; the schedules are still run on the real code and
    # the property clause (never both succeed) is still checked, but line counts are not compared with the hand model.
    from harness.common import translator
    try:
        prog_text = translator.guard_program_text()
    except Exception as e:  # noqa: BLE001  (already reported as a broken obligation by ctx.proofs())
        prog_text = None
        ctx.extra['guard_translation_error'] = str(e)[:300]
    canonical = prog_text == translator.CANONICAL_GUARD
    ctx.extra['guard_program'] = prog_text
    ctx.extra['guard_shape'] = 'canonical' if canonical else ('untranslatable' if prog_text is None else 'other (translated, theorem re-checked)')
    w = translator.guard_witness()
    if w is not None:
        ctx.extra['model_counterexample_schedule'] = w
    n = 4 if ctx.tier == 'quick' else 7
    scheds = []
    for pos in itertools.combinations(range(2 * n), n):  # positions of thread 0's grants: C(2n, n) interleavings
        ps = set(pos)
        scheds.append([0 if i in ps else 1 for i in range(2 * n)])
    extra = ctx.scale(quick=30, thorough=300)
    for _ in range(extra):
        ln = int(ctx.rng.integers(6, 20))
        scheds.append([int(x) for x in ctx.rng.integers(0, 2, size=ln)])
    both = 0
    runs = []
    for s in scheds:
        res, lines, blocked, eff = g.run(s) if canonical else g.run(s, region='ctor')
        runs.append((s, res, lines, blocked, eff))
    g.reset_class_state()
    if canonical:
        model = ctx.driver.outs([{'op': 'c20.run', 'locked': True, 'schedule': eff, 'threads': 2} for (_, _, _, _, eff) in runs])
    else:
        model = [None] * len(runs)
    for (s, res, lines, blocked, eff), m in zip(runs, model):
        ctx.case(json.dumps(s), nontrivial=is_overlapping(eff),
                 sample={'schedule': s, 'effective': eff, 'result': res, 'lines': {k: len(v) for k, v in lines.items()}})
        ctx.count('outcome:%s/%s' % (res.get(0), res.get(1)))
        ctx.count('blocked_grants', blocked)
        if res.get(0) == 'ok' and res.get(1) == 'ok':
            both += 1
            ctx.clause_fail('mutual_exclusion', {'schedule': s, 'effective_schedule': eff, 'result': res,
                                                 'lines': {str(k): [g.line_text(x) for x in v] for k, v in lines.items()}},
                            detail='both racing constructors succeeded under this line-level interleaving')
            continue
        if m is None:
            ctx.count('noncanonical_guard_schedules')
            continue
        impl = [res.get(0), res.get(1)]
        if impl != m['pcs'] or [len(lines[0]), len(lines[1])] != m['steps']:
            # a thread that is merely slow (machine under load) looks like a blocked one: re-run with a generous timeout
            g2 = GuardScheduler(timeout=5.0)
            res, lines, blocked, eff = g2.run(s)
            m = ctx.driver.outs([{'op': 'c20.run', 'locked': True, 'schedule': eff, 'threads': 2}])[0]
            impl = [res.get(0), res.get(1)]
            ctx.count('timing_retries')
            if res.get(0) == 'ok' and res.get(1) == 'ok':
                ctx.clause_fail('mutual_exclusion', {'schedule': s, 'effective_schedule': eff, 'result': res},
                                detail='both racing constructors succeeded under this line-level interleaving')
                continue
        if impl != m['pcs']:
            ctx.diverge('thread guard outcome: model vs implementation',
                        {'schedule': s, 'effective': eff, 'impl': impl, 'model': m['pcs']})
        elif [len(lines[0]), len(lines[1])] != m['steps']:
            ctx.diverge('thread guard traced line count: model vs implementation',
                        {'schedule': s, 'effective': eff, 'impl_lines': [len(lines[0]), len(lines[1])], 'model_steps': m['steps'],
                         'lines': {str(k): [g.line_text(x) for x in v] for k, v in lines.items()}})
    # the whole constructor, one pre-emption: thread A runs k traced lines of store.py (anywhere inside __init__ and the
    # helpers it calls), then thread B runs its constructor to completion, then A resumes — for every k, both roles
    res, lines, _, _ = g.run([0] * 2000, region='ctor')
    nlines = len(lines[0])
    ctx.extra['constructor_lines_traced'] = nlines
    BIG = 4 * nlines + 50
    step = 1 if ctx.tier == 'thorough' or nlines <= 80 else 2
    for first in (0, 1):
        other = 1 - first
        for k in range(0, nlines + 1, step):
            s = [first] * k + [other] * BIG + [first] * BIG
            res, ln, blocked, eff = g.run(s, region='ctor')
            ctx.case('ctor:%d:%d' % (first, k), nontrivial=0 < k < nlines, sample={'preempt_after': k, 'first': first, 'result': res} if k in (1, 5) else None)
            ctx.count('ctor_outcome:%s/%s' % (res.get(0), res.get(1)))
            if res.get(0) == 'ok' and res.get(1) == 'ok':
                ctx.clause_fail('mutual_exclusion', {'schedule': [first] * k + [other] * 3 + ['…'], 'region': 'constructor', 'preempt_after_lines': k,
                                                     'first_thread': first, 'result': res,
                                                     'last_lines_before_preemption': [g.line_text(x) for x in ln[first][max(0, k - 3):k]]},
                                detail=f'both constructors succeeded: thread {first} pre-empted after {k} traced lines of its constructor, '
                                       f'thread {other} ran to completion, thread {first} resumed')
                break
    g.reset_class_state()
    # sequential orders
    seq_results = sequential(ctx)
    ctx.extra['sequential'] = seq_results
    ctx.extra['both_succeeded'] = both
    ctx.extra['exhaustive'] = True
    return ctx.finish(RULE, TRUSTED, ASSUME)


def sequential(ctx):
    from AEIC.trajectories import TrajectoryStore

    out = {}

    def attempt(box, key):
        try:
            ts = TrajectoryStore.create()
            box[key] = 'ok'
            return ts
        except RuntimeError:
            box[key] = 'refused'
        except Exception as e:  # noqa: BLE001
            box[key] = 'other:' + type(e).__name__
        return None

    def fork_once():
        # the process forks (a worker is started, a subprocess helper runs …); the child leaves at once
        import gc as _gc
        import os as _os

        pid_ = _os.fork()
        if pid_ == 0:
            _os._exit(0)
        _os.waitpid(pid_, 0)
        _gc.collect()

    # what happens in the process between the first thread's store and the second thread's attempt: nothing; the process forks
    # (from the owning thread / from the main thread); a garbage collection; a third thread that only starts and ends
    for close_first, between in [(c, b) for c in (False, True) for b in (None, 'fork_by_owner', 'fork_by_main', 'gc', 'idle_thread')]:
        TrajectoryStore.active_in_thread = None
        box: dict = {}
        holder = {}

        started = threading.Event()
        release = threading.Event()

        def first():
            holder['ts'] = attempt(box, 'first')
            if close_first and holder['ts'] is not None:
                holder['ts'].close()
            if between == 'fork_by_owner':
                fork_once()
            started.set()
            release.wait(10.0)  # stay alive: thread identifiers of finished threads may be reused

        t1 = threading.Thread(target=first)
        t1.start()
        started.wait(10.0)
        if between == 'fork_by_main':
            fork_once()
        elif between == 'gc':
            import gc as _gc

            _gc.collect()
        elif between == 'idle_thread':
            t0 = threading.Thread(target=lambda: None)
            t0.start()
            t0.join()
        def second():
            # the refused thread tries again (a retry after the error, a pool worker that is reused): still refused
            attempt(box, 'second')
            attempt(box, 'second_again')
            attempt(box, 'second_third')

        t2 = threading.Thread(target=second)
        t2.start()
        t2.join()
        release.set()
        t1.join()
        key = ('after_close' if close_first else 'before_close') + ('' if between is None else ':' + between)
        if box.get('first') == 'ok' and box.get('second') == 'refused' and (box.get('second_again') != 'refused' or box.get('second_third') != 'refused'):
            ctx.clause_fail('later_thread_refused', {'order': key, 'result': dict(box)},
                            detail='a thread that had been refused was allowed to create a store when it tried again')
        out[key] = dict(box)
        ctx.case('sequential:' + key, nontrivial=True, sample={'order': key, 'result': dict(box)})
        if box.get('first') != 'ok' or box.get('second') != 'refused':
            ctx.clause_fail('later_thread_refused', {'order': key, 'result': dict(box)},
                            detail='a second thread creating a store after the first thread was not refused')
    # subclasses share the one process-wide record: whichever class creates the first store, every other thread is refused
    class SubA(TrajectoryStore):
        pass

    class SubB(TrajectoryStore):
        pass

    for first_cls, second_cls in ((SubA, TrajectoryStore), (TrajectoryStore, SubA), (SubA, SubB), (SubA, SubA)):
        for c in (TrajectoryStore, SubA, SubB):
            if 'active_in_thread' in vars(c) and c is not TrajectoryStore:
                delattr(c, 'active_in_thread')
        TrajectoryStore.active_in_thread = None
        box = {}
        started, release = threading.Event(), threading.Event()

        def make(cls, key, box=box):
            try:
                cls.create()
                box[key] = 'ok'
            except RuntimeError:
                box[key] = 'refused'
            except Exception as e:  # noqa: BLE001
                box[key] = 'other:' + type(e).__name__

        def owner(first_cls=first_cls):
            make(first_cls, 'first')
            started.set()
            release.wait(10.0)

        t1 = threading.Thread(target=owner)
        t1.start()
        started.wait(10.0)
        t2 = threading.Thread(target=lambda: make(second_cls, 'second'))
        t2.start()
        t2.join()
        release.set()
        t1.join()
        key = f'subclass:{first_cls.__name__}->{second_cls.__name__}'
        out[key] = dict(box)
        ctx.case('sequential:' + key, nontrivial=True, sample={'order': key, 'result': dict(box)})
        if box.get('first') == 'ok' and box.get('second') != 'refused':
            ctx.clause_fail('later_thread_refused', {'order': key, 'result': dict(box)},
                            detail=f'first store created through {first_cls.__name__}; another thread creating one through '
                                   f'{second_cls.__name__} was not refused')
    for c in (SubA, SubB):
        if 'active_in_thread' in vars(c):
            delattr(c, 'active_in_thread')
    # a failing construction attempt by the owning thread (after it has created a store) must not release the claim
    import tempfile as _tf
    from pathlib import Path as _P

    tmpd = _P(_tf.mkdtemp(prefix='aeicverif_c20_'))
    try:
        (tmpd / 'garbage.nc').write_bytes(b'this is not a NetCDF file')
        for kind in ('missing_path', 'not_netcdf', 'bad_arguments'):
            for close_first in (False, True):
                TrajectoryStore.active_in_thread = None
                box = {}
                started, release = threading.Event(), threading.Event()

                def owner():
                    ts = attempt(box, 'first')
                    if close_first and ts is not None:
                        ts.close()
                    try:
                        if kind == 'missing_path':
                            TrajectoryStore.open(base_file=tmpd / 'does-not-exist.nc')
                        elif kind == 'not_netcdf':
                            TrajectoryStore.open(base_file=tmpd / 'garbage.nc')
                        else:
                            TrajectoryStore.open(base_file=tmpd / 'x.nc', title='not allowed in READ mode')
                        box['failing'] = 'unexpectedly ok'
                    except Exception as e:  # noqa: BLE001
                        box['failing'] = 'raised:' + type(e).__name__
                    started.set()
                    release.wait(10.0)

                t1 = threading.Thread(target=owner)
                t1.start()
                started.wait(10.0)
                t2 = threading.Thread(target=lambda: attempt(box, 'second'))
                t2.start()
                t2.join()
                release.set()
                t1.join()
                key = f'failed_attempt:{kind}:{"closed" if close_first else "open"}'
                out[key] = dict(box)
                ctx.case('sequential:' + key, nontrivial=True, sample={'order': key, 'result': dict(box)})
                if box.get('first') == 'ok' and box.get('second') != 'refused':
                    ctx.clause_fail('later_thread_refused', {'order': key, 'result': dict(box)},
                                    detail=f'after the owning thread created a store and then made a failing construction attempt '
                                           f'({kind}), another thread was not refused')
    finally:
        import shutil as _sh

        _sh.rmtree(tmpd, ignore_errors=True)
    # same thread again
    TrajectoryStore.active_in_thread = None
    box = {}

    def twice():
        attempt(box, 'a')
        attempt(box, 'b')

    t = threading.Thread(target=twice)
    t.start()
    t.join()
    out['same_thread_twice'] = dict(box)
    ctx.case('sequential:same_thread_twice', nontrivial=True, sample=dict(box))
    if box != {'a': 'ok', 'b': 'ok'}:
        ctx.clause_fail('same_thread_again_allowed', {'result': dict(box)}, detail='the owning thread could not create a second store')
    TrajectoryStore.active_in_thread = None
    return out


def replay(ctx, path):
    aeic_setup()
    j = json.loads(open(path).read())
    case = j.get('first', j).get('case', j)
    g = GuardScheduler()
    if case.get('region') == 'constructor':
        k, first = case['preempt_after_lines'], case['first_thread']
        case = dict(case, schedule=[first] * k + [1 - first] * 2000 + [first] * 2000)
        res, lines, blocked, eff = g.run(case['schedule'], region='ctor')
        print('pre-empt thread', first, 'after', k, 'lines ->', res)
        g.reset_class_state()
        return 1 if (res.get(0) == 'ok' and res.get(1) == 'ok') else 0
    res, lines, blocked, eff = g.run(case['schedule'])
    print('schedule', case['schedule'], '->', res)
    for k, v in lines.items():
        print(' thread', k, [g.line_text(x)[:60] for x in v])
    g.reset_class_state()
    return 1 if (res.get(0) == 'ok' and res.get(1) == 'ok') else 0
