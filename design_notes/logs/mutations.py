import subprocess, json, os, sys, re
REPO='/tmp/b/c0405/repo'; VERIF='/tmp/b/c0405/verif'
F=REPO+'/src/AEIC/gridding/grid.py'
MUTS=[
 ('M1 midpoint lat index off by one (dropped -1)',
  "midpoint_lat_indices = np.searchsorted(self.grid_latitudes, midpoints_lats) - 1",
  "midpoint_lat_indices = np.searchsorted(self.grid_latitudes, midpoints_lats)"),
 ('M2 altitude cell from segment end point instead of start',
  "return (np.searchsorted(self.grid_altitudes, altitudes) - 1)[:-1]",
  "return (np.searchsorted(self.grid_altitudes, altitudes) - 1)[1:]"),
 ('M3 southward legs: crossed lat lines shifted by one',
  """            _change_range = np.arange(_abs_lat_index_change)
            if _lat_index_change < 0:
                _change_range *= -1""",
  """            _change_range = np.arange(_abs_lat_index_change)
            if _lat_index_change < 0:
                _change_range = -_change_range - 1"""),
 ('M4 second dateline part starts on the wrong side (+pi/-pi swapped)',
  """                np.array([-np.pi if dateline_crossing_sign == -1 else np.pi]),
                lons[dateline_crossing_idx + 1 :],""",
  """                np.array([np.pi if dateline_crossing_sign == -1 else -np.pi]),
                lons[dateline_crossing_idx + 1 :],"""),
 ('M5 single-cell segments: end index not blanked in the lon index array',
  "        all_subsegment_lon_indices[absolute_index_changes == 0, -1] = np.nan\n", ""),
 ('M6 HARMLESS: zero-length fraction 1 instead of 1/count (count is always 1 there)',
  "out=1.0 / np.repeat(count_subsegments, count_subsegments),", "out=np.ones_like(subsegment_distances),"),
 ('M7 dateline shares normalised by the direct segment length instead of l1+l2',
  "        total_segment_length = first_segment_length + second_segment_length\n        return first_segment_length",
  "        total_segment_length = great_circle_distance(lats[dateline_crossing_idx], lons[dateline_crossing_idx], lats[dateline_crossing_idx + 1], lons[dateline_crossing_idx + 1])\n        return first_segment_length"),
 ('M8 HARMLESS: slopes via np.where instead of np.divide(where=)',
  "    slopes = np.divide(dy, dx, out=np.full_like(dy, np.inf), where=dx != 0)",
  "    with np.errstate(divide='ignore', invalid='ignore'):\n        slopes = np.where(dx != 0, dy / dx, np.inf)"),
 ('M9 lon crossings sorted by the latitude direction (wrong for NW/SE legs)',
  """        intersection_point_lons[lon_change_signs == -1] = -intersection_point_lons[
            lon_change_signs == -1
        ]
        intersection_point_lons.sort(axis=1)""",
  """        intersection_point_lons[lat_change_signs == -1] = -intersection_point_lons[
            lat_change_signs == -1
        ]
        intersection_point_lons.sort(axis=1)"""),
 ('M10 state variables taken from the segment end point',
  "np.repeat(variable[:-1], count_subsegments) for variable in state_variables",
  "np.repeat(variable[1:], count_subsegments) for variable in state_variables"),
 ('M11 zero-length rule reverted (fraction 0)',
  "out=1.0 / np.repeat(count_subsegments, count_subsegments),", "out=np.zeros_like(subsegment_distances),"),
 ('M12 integrated value of the crossing segment not scaled in the second part (dropped term)',
  """                            var[dateline_crossing_idx]
                            * second_segment_length
                            / total_segment_length""",
  """                            var[dateline_crossing_idx]"""),
 ('M13 lat lines for vertical steps: intersection lon uses next segment intercept (rare: only multi-segment)',
  "            ) + np.expand_dims(_intercepts, axis=1)", "            ) + np.expand_dims(np.roll(_intercepts, 1), axis=1)"),
 ('M17 crossing latitude: end longitude unwrapped the wrong way',
  "lon_end = lons[dateline_crossing_idx + 1] - dateline_crossing_sign * 2 * np.pi",
  "lon_end = lons[dateline_crossing_idx + 1] + dateline_crossing_sign * 2 * np.pi"),
 ('M18 time cell: side=right (differs only for times exactly on a grid line)',
  "return (np.searchsorted(self.grid_times, times) - 1)[:-1]",
  "return (np.searchsorted(self.grid_times, times, side='right') - 1)[:-1]"),
 ('M20 junk inter-segment distances deleted at shifted positions (multi-segment only)',
  "non_segment_idxs = (np.cumsum(count_subsegments + 1) - 1)[:-1]",
  "non_segment_idxs = (np.cumsum(count_subsegments + 1))[:-2]"),
 ('M21 ARGUABLY HARMLESS: fractions normalised by the sum of the piece lengths (no excess at all)',
  "            segment_distances_repeated = np.repeat(segment_distances, count_subsegments)\n",
  "            segment_distances_repeated = np.repeat(np.add.reduceat(subsegment_distances, np.concatenate(([0], np.cumsum(count_subsegments)[:-1]))), count_subsegments)\n"),
 ('M22 first dateline part keeps the full value when the crossing is at the very first segment (rare branch)',
  """                            variable[dateline_crossing_idx]
                            * first_segment_length
                            / total_segment_length""",
  """                            variable[dateline_crossing_idx]
                            * (first_segment_length if dateline_crossing_idx > 0 else total_segment_length)
                            / total_segment_length"""),
]
only=sys.argv[1:] 
env=dict(os.environ, AEIC_REPO=REPO)
for name,old,new in MUTS:
    if only and not any(name.startswith(o+' ') for o in only): continue
    src=open(F).read()
    n=src.count(old)
    if n<1: print(name,'PATTERN NOT FOUND'); continue
    open(F,'w').write(src.replace(old,new,1))
    try:
        res=[]
        for pid in ('C04','C05'):
            r=subprocess.run(['./check',pid,'--tier','quick'],cwd=VERIF,env=env,capture_output=True,text=True)
            out=r.stdout
            viol=[l for l in out.split('\n') if l.startswith('VIOLATION')]
            part=''
            if viol:
                m=re.search(r'replay=(\S+)',viol[0])
                d=json.load(open(m.group(1)))
                if d['kind']=='clause-failure':
                    clauses=sorted({v['clause'] for v in [d['first']]+d['others']})
                    part=f"clause {clauses} ({d['count']} failing cases); first: {d['first']['detail'][:160]}"
                    # replay it
                    rr=subprocess.run(['./check',pid,'--replay',m.group(1)],cwd=VERIF,env=env,capture_output=True,text=True)
                    part+=f" | replay exit {rr.returncode}"
                else:
                    part=f"correspondence only ({d['divergence_count']} divergences), no-failing-input-found"
            summ=[l for l in out.split('\n') if l.startswith('['+pid+']')]
            res.append(f"  {pid}: exit {r.returncode} {part} || {summ[-1] if summ else out[-300:]}")
        print(name); print('\n'.join(res)); sys.stdout.flush()
    finally:
        subprocess.run(['git','-C',REPO,'checkout','--','.'])
