import subprocess, json, sys, os, re
REPO='/tmp/b/c19/repo'
M='src/AEIC/BADA/model.py'; B='src/AEIC/BADA/fuel_burn_base.py'
MUTS=[
 ('M1 swapped where-args: cruise/climb maximum', M, 'max_thrust = np.where(in_cruise, max_cruise_thrust, max_climb_thrust)', 'max_thrust = np.where(in_cruise, max_climb_thrust, max_cruise_thrust)', 1),
 ('M2 boundary: descent switch > becomes >=', M, 'altitude * METERS_TO_FEET > self.aircraft_parameters.h_p_des', 'altitude * METERS_TO_FEET >= self.aircraft_parameters.h_p_des', 1),
 ('M3 dropped term: acceleration in total energy', M, 'return drag + mass * (g0 * (1 / v_tas) * rocd + acceleration)', 'return drag + mass * (g0 * (1 / v_tas) * rocd)', 1),
 ('M4 boundary: sgr < 1 becomes <= 1 (forward update)', B, '''            specific_ground_range < 1, np.inf, specific_ground_range
        )
        mass[1:]''', '''            specific_ground_range <= 1, np.inf, specific_ground_range
        )
        mass[1:]''', 1),
 ('M5 cruise correction applied in every phase', M, 'fuel_flow = np.where(in_cruise, fuel_flow_cruise, fuel_flow)', 'fuel_flow = np.where(in_cruise, fuel_flow_cruise, fuel_flow_cruise)', 1),
 ('M6 MTOW limit lost in rf_value driver (min -> max)', M, '''                    oew + mpl * load_factor + fuel_burn + reserve_fuel,
                    mtow,
                )
            )''', '''                    oew + mpl * load_factor + fuel_burn + reserve_fuel,
                    mtow,
                )
            ) if fuel_burn < 0 else max(oew + mpl * load_factor + fuel_burn + reserve_fuel, mtow)''', 1),
 ('M7 rare condition: temperature clip upper bound 0.4 -> 0.5', M, '''                0,
                0.4,''', '''                0,
                0.5,''', 1),
 ('M8 state not re-anchored in rf_fraction driver (fix 4 reverted in one driver)', M, '''            mass[0] = initial_mass

            # re-anchor the profile at the new initial mass so that the
            # returned vector stays the integral of the fuel burn from mass[0]
            mass = self.update_mass_vector(
                mass, specific_ground_range, segment_distance
            )
''', '''            mass[0] = initial_mass
''', 1),
 ('M9 backward update: rectangle rule instead of trapezoid', B, '''        cumulative_integral = cumulative_trapezoid(
            1 / specific_ground_range_corrected[::-1], dx=segment_distance_reversed
        )[::-1]''', '''        cumulative_integral = np.cumsum(
            (1 / specific_ground_range_corrected[::-1])[1:] * segment_distance_reversed
        )[::-1]''', 1),
 ('M10 turboprop SFC sign', M, '* (1 - v_tas * MPS_TO_KNOTS / self.aircraft_parameters.c_f2)', '* (1 + v_tas * MPS_TO_KNOTS / self.aircraft_parameters.c_f2)', 1),
 ('M11 thrust limit skipped on cruise points only', M, 'thrust = np.where(thrust > max_thrust, max_thrust, thrust)', 'thrust = np.where((thrust > max_thrust) & ~np.asarray(in_cruise, bool), max_thrust, thrust)', 1),
 ('M12 negative-thrust test off: < 0 becomes < -1000', M, 'thrust = np.where(thrust < 0, descent_thrust, thrust)', 'thrust = np.where(thrust < -1000, descent_thrust, thrust)', 1),
 ('M13 backward update anchors at mass[0] instead of mass[-1]', B, 'mass[:-1] = mass[-1] + cumulative_integral', 'mass[:-1] = mass[0] + cumulative_integral', 1),
 ('H1 harmless: > max becomes >= max', M, 'thrust = np.where(thrust > max_thrust, max_thrust, thrust)', 'thrust = np.where(thrust >= max_thrust, max_thrust, thrust)', 1),
 ('H2 harmless: np.minimum instead of where', M, 'thrust = np.where(thrust > max_thrust, max_thrust, thrust)', 'thrust = np.minimum(thrust, max_thrust)', 1),
 ('H3 harmless: loop-free forward update (explicit cumsum)', B, '''        mass[1:] = mass[0] - cumulative_trapezoid(
            1 / specific_ground_range_corrected, dx=segment_distance
        )''', '''        y = 1 / specific_ground_range_corrected
        mass[1:] = mass[0] - np.cumsum(segment_distance * (y[1:] + y[:-1]) / 2.0)''', 1),

 ('M22 rare: max(0, c_tc5) dropped', M, '* np.maximum(0, self.aircraft_parameters.c_tc5),', '* self.aircraft_parameters.c_tc5,', 1),
 ('M23 swapped: high-altitude descent thrust uses low coefficient', M, 'return self.aircraft_parameters.c_tdes_high * self.calculate_max_climb_thrust(', 'return self.aircraft_parameters.c_tdes_low * self.calculate_max_climb_thrust(', 1),
 ('M14 property-neutral: convergence tolerance 0.01 -> 1.0 in const_initial', M, """            final_mass_pct_change = (
                np.abs(mass[-1] - old_final_mass) / old_final_mass
            ) * 100

            if final_mass_pct_change < 0.01:
                return mass

            old_final_mass = mass[-1].copy()
        return mass

    def iterate_flight_simulation_constant_final_mass(""", """            final_mass_pct_change = (
                np.abs(mass[-1] - old_final_mass) / old_final_mass
            ) * 100

            if final_mass_pct_change < 1.0:
                return mass

            old_final_mass = mass[-1].copy()
        return mass

    def iterate_flight_simulation_constant_final_mass(""", 1),
 ('M24 forward update uses reversed segment lengths', B, """            1 / specific_ground_range_corrected, dx=segment_distance
        )""", """            1 / specific_ground_range_corrected, dx=np.broadcast_to(segment_distance, (len(mass) - 1,))[::-1]
        )""", 1),
]
only=sys.argv[1:] 
rows=[]
for name,f,a,b,cnt in MUTS:
    if only and not any(name.startswith(o) for o in only): continue
    p=os.path.join(REPO,f); s=open(p).read()
    if s.count(a)<1: print('PATTERN NOT FOUND',name); continue
    open(p,'w').write(s.replace(a,b,cnt))
    try:
        env=dict(os.environ,AEIC_REPO=REPO)
        r=subprocess.run(['./check','C19','--tier','quick'],cwd='/tmp/b/c19/verif',env=env,capture_output=True,text=True)
        out=r.stdout.strip().split('\n')
        vio=[l for l in out if l.startswith('VIOLATION')]
        info=''
        if vio:
            m=re.search(r'replay=(\S+)',vio[0]); j=json.load(open(m.group(1)))
            if 'first' in j:
                cl={}
                for v in [j['first']]+j['others']: cl[v['clause']]=cl.get(v['clause'],0)+1
                info=f"clauses(first10)={cl} count={j['count']} | {j['first']['detail'][:160]}"
                rr=subprocess.run(['./check','C19','--replay',m.group(1)],cwd='/tmp/b/c19/verif',env=env,capture_output=True,text=True)
                info+=f' | replay exit={rr.returncode}'
            else:
                info='NO-FAILING-INPUT '+str(j.get('divergence_count'))+' '+str([d['correspondence'] for d in j['divergences'][:3]])
        rows.append((name,r.returncode,out[-1][-110:],info))
        print(name,'| exit',r.returncode,'|',info,'|',out[-1][-100:],flush=True)
    finally:
        subprocess.run(['git','-C',REPO,'checkout','--','.'])
