import subprocess, sys, json, os, re
REPO='/tmp/b/c13/repo'
M = {
 'M1 range end exclusive (off-by-one)': ('src/AEIC/missions/writable_database.py', "pd.date_range(effective_from, effective_to, tz='UTC')", "pd.date_range(effective_from, effective_to, tz='UTC', inclusive='left')"),
 'M2 weekday shifted by one': ('src/AEIC/types/time.py', "return cls(t.isoweekday())", "return cls(t.isoweekday() % 7 + 1)"),
 'M3 arrival day offset dropped': ('src/AEIC/missions/writable_database.py', "                    days=arrival_day_offset,\n", ""),
 'M4 arrival converted in origin zone': ('src/AEIC/missions/writable_database.py', ").replace(tzinfo=ZoneInfo(destination.timezone))", ").replace(tzinfo=ZoneInfo(origin.timezone))"),
 'M5 misordering test <= (boundary)': ('src/AEIC/missions/writable_database.py', "if arr_timestamp < dep_timestamp:", "if arr_timestamp <= dep_timestamp:"),
 'M6 open-ended end defaults to Dec 30': ('src/AEIC/missions/oag.py', "date(self._year, 12, 31)", "date(self._year, 12, 30)"),
 'M7 distance rule and -> or': ('src/AEIC/missions/writable_database.py', "                abs_diff > abs_difference_threshold_km\n                and pct_diff", "                abs_diff > abs_difference_threshold_km\n                or pct_diff"),
 'M8 service U no longer filtered': ('src/AEIC/missions/oag.py', "if row['service'] in ('V', 'U'):", "if row['service'] in ('V',):"),
 'M9 misordered instance kept (continue removed)': ('src/AEIC/missions/writable_database.py', "                    arrival_day_offset=arrival_day_offset,\n                )\n                continue\n", "                    arrival_day_offset=arrival_day_offset,\n                )\n"),
 'M10 minute parsed modulo 60': ('src/AEIC/missions/oag.py', "minute=tint % 100)", "minute=tint % 60)"),
 'M11 day column from local date': ('src/AEIC/missions/writable_database.py', "day = int((dep_time - EPOCH).days)", "day = int((flight_date - EPOCH).days)"),
 'M12 count set only when > 0 instances kept... (count = candidates)': ('src/AEIC/missions/writable_database.py', "        return len(data)\n", "        return len(data) + (1 if line in self.warnings else 0)\n"),
 'M13 open-ended start defaults to Jan 2 in leap years only (rare branch)': ('src/AEIC/missions/oag.py', "effective_from = e.efffrom or date(self._year, 1, 1)", "effective_from = e.efffrom or date(self._year, 1, 2 if self._year % 4 == 0 else 1)"),
 'M14 50 km threshold -> 60 km': ('src/AEIC/missions/writable_database.py', "abs_difference_threshold_km: float = 50.0", "abs_difference_threshold_km: float = 60.0"),
 'M15 departure minutes dropped on DST-less path (dep uses hours only)': ('src/AEIC/missions/writable_database.py', "+ timedelta(hours=departure_time.hour, minutes=departure_time.minute)", "+ timedelta(hours=departure_time.hour, minutes=departure_time.minute if departure_time.minute != 59 else 0)"),
}
only = sys.argv[1:] 
for name,(f,old,new) in M.items():
    if only and not any(name.startswith(o) for o in only): continue
    p=os.path.join(REPO,f); s=open(p).read()
    assert s.count(old)>=1, name
    open(p,'w').write(s.replace(old,new,1))
    try:
        r=subprocess.run(['./check','C13','--tier','quick'],cwd='/tmp/b/c13/verif',env=dict(os.environ,AEIC_REPO=REPO),capture_output=True,text=True)
        lines=[l for l in r.stdout.split('\n') if l.startswith('VIOLATION') or l.startswith('[C13]')]
        info=''
        m=re.search(r'replay=(\S+)', r.stdout)
        if m and os.path.exists(m.group(1)):
            j=json.load(open(m.group(1)))
            if 'first' in j:
                cl={}
                for v in [j['first']]+j.get('others',[]): cl[v['clause']]=cl.get(v['clause'],0)+1
                info=f"clauses(first10)={cl} count={j['count']} detail={j['first']['detail'][:140]}"
                rp=subprocess.run(['./check','C13','--replay',m.group(1)],cwd='/tmp/b/c13/verif',env=dict(os.environ,AEIC_REPO=REPO),capture_output=True,text=True)
                info+=' | replay: '+rp.stdout.strip().split('\n')[0][:160]
            else:
                info='no-failing-input-found; divergences='+str(j.get('divergence_count'))
        t=subprocess.run(['/venv/bin/python','-m','pytest','-q','-p','no:cacheprovider','-x','tests/test_mission_db_creation.py','tests/test_mission_db.py'],cwd=REPO,env=dict(os.environ,PYTHONPATH=REPO+'/src'),capture_output=True,text=True)
        tests=t.stdout.strip().split('\n')[-1][:60]
        print('==',name,'\n   exit',r.returncode,'|',' '.join(l[:200] for l in lines[-1:]),'\n   ',info,'\n    repo tests:',tests)
    finally:
        subprocess.run(['git','-C',REPO,'checkout','--','.'])
